local unused_b3 = 1
print(undef_b3)
require("nofile_b3")
---@class
local an_b3 = 1
print(an_b3)
