local unused_bo = 1
local yy = 2
yy = yy
