local unused_cpp = 1
print(undef_cpp)
