local unused_t1 = 1
print(undef_t1)
