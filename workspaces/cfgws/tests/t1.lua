local unused_t1 = 1
print(undef_t1)
---@class
local an_t1 = 1
print(an_t1)
