local s = 
