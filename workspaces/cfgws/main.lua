local unused1 = 1
print(undef_main)
print(later_g)
later_g = 1
local t = { k = 1, k = 2 }
print(t)
require("nofile_main")
local x1, y1 = 1, 2
x1, y1 = 1, 2, 3
local z1 = 1, 2
print(x1, y1, z1)
function gfun2(p1, p2)
  print(p1, p2)
end
gfun2(1, 2, 3)
function dupp(q, q)
  print(q)
end
if x1 == x1 then print(1) end
local o1 = x1 or true
local o2 = x1 and false
print(o1, o2)
local wo = 1
wo = 2
if x1 == 1 then print(1) elseif x1 == 1 then print(2) end
x1 = x1
if y1 == 1.5 then print(3) end
for _, v in pairs({}) do
  if v then goto cont end
end
---@type badtype(
local ann = 1
print(ann)
local nv
if not nv then
  print(nv.field)
end
