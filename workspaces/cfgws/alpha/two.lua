local unused_a2 = 1
print(undef_a2)
local function f2(a, a) print(a) end
f2(1)
