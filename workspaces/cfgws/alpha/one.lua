local unused_a1 = 1
print(undef_a1)
local ta = { m = 1, m = 2 }
print(ta)
---@class
local an_a1 = 1
print(an_a1)
