// extract derives, from the current source tree (go/ast, no execution), the tables Dispatch.tla needs (binding B3):
// for every LSP method registered in lsp_server.go its handler, whether the handler takes requestMutex (from its first
// statement, later, or never) and which shared structures it touches (transitively through methods of the langserver
// package), split into reads and writes, and for the "tail" lock case which accesses precede the lock.
package main

import (
	"encoding/json"
	"fmt"
	"go/ast"
	"go/parser"
	"go/token"
	"os"
	"path/filepath"
	"sort"
	"strings"
)

type access struct {
	Struct string `json:"s"`
	Write  bool   `json:"w"`
	Bare   bool   `json:"bare"` // performed while the handler does not hold requestMutex
}

type fn struct {
	name      string
	body      *ast.BlockStmt
	recv      string
	lockPos   token.Pos // position of requestMutex.Lock() in this function, 0 = none
	unlockPos token.Pos // position of an explicit (non-deferred) requestMutex.Unlock(), 0 = held to the end
	acc       []struct {
		a   access
		pos token.Pos
	}
	calls []struct {
		name string
		pos  token.Pos
	}
}

// field of LspServer -> shared structure
var fieldStruct = map[string]string{"fileCache": "docMap", "fileErrorMap": "savedDiag", "fileChangeErrorMap": "liveDiag",
	"project": "projectPtr", "colorTime": "colorTime", "changeConfFlag": "confFlag", "onlineReport": "report", "enableReport": "report"}

// methods of other packages that write shared state
var writeCalls = map[string]string{"SetFileContent": "docMap", "DelFileContent": "docMap",
	"HandleFileEventChanges": "projectState", "HandleFileChangeAnalysis": "projectState", "RemoveCacheContent": "projectState", "RemoveFile": "projectState",
	"HandleCheck": "projectState", "HandleChangeCheckList": "gconfig", "SetAssocialList": "gconfig", "SetRequirePathSeparator": "gconfig",
	"SetPreviewFieldsNum": "gconfig", "ReadConfig": "gconfig", "PushOneSubDir": "gconfig", "RemoveOneSubDir": "gconfig"}
var readCalls = map[string]string{"GetFileContent": "docMap", "ApplyContentChanges": "docMap"}

func main() {
	dir := "/repo/luahelper-lsp/langserver"
	if len(os.Args) > 1 {
		dir = os.Args[1]
	}
	fset := token.NewFileSet()
	pkgs, err := parser.ParseDir(fset, dir, func(fi os.FileInfo) bool {
		return !strings.HasSuffix(fi.Name(), "_test.go") && !strings.HasPrefix(fi.Name(), "verif_")
	}, 0)
	if err != nil {
		fmt.Fprintln(os.Stderr, err)
		os.Exit(2)
	}
	fns := map[string]*fn{}
	handlers := map[string]string{} // LSP method -> Go method
	for _, pkg := range pkgs {
		for fname, f := range pkg.Files {
			_ = fname
			for _, d := range f.Decls {
				fd, ok := d.(*ast.FuncDecl)
				if !ok || fd.Body == nil {
					continue
				}
				x := &fn{name: fd.Name.Name, body: fd.Body}
				if fd.Recv != nil && len(fd.Recv.List) == 1 && len(fd.Recv.List[0].Names) == 1 {
					x.recv = fd.Recv.List[0].Names[0].Name
				}
				fns[x.name] = x
			}
			// handler.Map literal
			ast.Inspect(f, func(n ast.Node) bool {
				kv, ok := n.(*ast.KeyValueExpr)
				if !ok {
					return true
				}
				k, ok1 := kv.Key.(*ast.BasicLit)
				call, ok2 := kv.Value.(*ast.CallExpr)
				if !ok1 || !ok2 || len(call.Args) != 1 {
					return true
				}
				if sel, ok := call.Args[0].(*ast.SelectorExpr); ok {
					if se, ok := call.Fun.(*ast.SelectorExpr); ok && se.Sel.Name == "New" {
						handlers[strings.Trim(k.Value, `"`)] = sel.Sel.Name
					}
				}
				return true
			})
		}
	}
	for _, x := range fns {
		scan(x)
	}
	out := map[string]interface{}{}
	var methods []string
	for m := range handlers {
		methods = append(methods, m)
	}
	sort.Strings(methods)
	for _, m := range methods {
		h := fns[handlers[m]]
		if h == nil {
			continue
		}
		lock := "none"
		if h.lockPos != 0 {
			lock = "full"
			if len(h.body.List) > 0 && h.lockPos > h.body.List[0].End() {
				// something happens before the lock
				first := true
				for _, st := range h.body.List {
					if st.Pos() <= h.lockPos && h.lockPos <= st.End() {
						break
					}
					first = false
				}
				if !first {
					lock = "tail"
				}
			}
		}
		seen := map[string]bool{}
		var accs []access
		var walk func(f *fn, bare bool, depth int, visiting map[string]bool)
		walk = func(f *fn, bare bool, depth int, visiting map[string]bool) {
			if visiting[f.name] || depth > 12 {
				return
			}
			visiting[f.name] = true
			defer delete(visiting, f.name)
			for _, a := range f.acc {
				b := bare
				if f.lockPos != 0 && a.pos > f.lockPos {
					b = false // this function (handler or callee) holds requestMutex from its Lock() call to its end
				}
				if f == h && lock != "none" {
					b = a.pos < h.lockPos
				}
				if f.unlockPos != 0 && a.pos > f.unlockPos {
					b = true // the mutex was released explicitly before this access
				}
				aa := a.a
				aa.Bare = b
				k := fmt.Sprintf("%s/%v/%v", aa.Struct, aa.Write, aa.Bare)
				if !seen[k] {
					seen[k] = true
					accs = append(accs, aa)
				}
			}
			for _, c := range f.calls {
				if g := fns[c.name]; g != nil {
					b := bare
					if f.lockPos != 0 && c.pos > f.lockPos {
						b = false
					}
					if f == h && lock != "none" {
						b = c.pos < h.lockPos
					}
					if f.unlockPos != 0 && c.pos > f.unlockPos {
						b = true
					}
					walk(g, b, depth+1, visiting)
				}
			}
		}
		walk(h, lock == "none", 0, map[string]bool{})
		sort.Slice(accs, func(i, j int) bool {
			return fmt.Sprint(accs[i]) < fmt.Sprint(accs[j])
		})
		if lock == "none" {
			any, allLocked := false, true
			for _, a := range accs {
				any = true
				if a.Bare {
					allLocked = false
				}
			}
			if any && allLocked {
				lock = "callee"
			}
		}
		if accs == nil {
			accs = []access{}
		}
		out[m] = map[string]interface{}{"handler": h.name, "lock": lock, "acc": accs}
	}
	b, _ := json.MarshalIndent(out, "", " ")
	fmt.Println(string(b))
	_ = filepath.Base
}

func scan(x *fn) {
	add := func(s string, w bool, pos token.Pos) {
		x.acc = append(x.acc, struct {
			a   access
			pos token.Pos
		}{access{Struct: s, Write: w}, pos})
	}
	isRecvField := func(e ast.Expr) (string, bool) {
		sel, ok := e.(*ast.SelectorExpr)
		if !ok {
			return "", false
		}
		id, ok := sel.X.(*ast.Ident)
		if !ok || x.recv == "" || id.Name != x.recv {
			return "", false
		}
		s, ok := fieldStruct[sel.Sel.Name]
		return s, ok
	}
	written := map[ast.Node]bool{}
	deferred := map[ast.Node]bool{}
	ast.Inspect(x.body, func(n ast.Node) bool {
		if d, ok := n.(*ast.DeferStmt); ok {
			deferred[d.Call] = true
		}
		return true
	})
	ast.Inspect(x.body, func(n ast.Node) bool {
		switch v := n.(type) {
		case *ast.AssignStmt:
			for _, lhs := range v.Lhs {
				base := lhs
				if ix, ok := lhs.(*ast.IndexExpr); ok {
					base = ix.X
				}
				if s, ok := isRecvField(base); ok {
					add(s, true, v.Pos())
					written[base] = true
				}
			}
		case *ast.CallExpr:
			if id, ok := v.Fun.(*ast.Ident); ok && id.Name == "delete" && len(v.Args) > 0 {
				if s, ok := isRecvField(v.Args[0]); ok {
					add(s, true, v.Pos())
					written[v.Args[0]] = true
				}
			}
			if sel, ok := v.Fun.(*ast.SelectorExpr); ok {
				name := sel.Sel.Name
				if inner, ok := sel.X.(*ast.SelectorExpr); ok && inner.Sel.Name == "requestMutex" && name == "Lock" {
					if x.lockPos == 0 {
						x.lockPos = v.Pos()
					}
				}
				if inner, ok := sel.X.(*ast.SelectorExpr); ok && inner.Sel.Name == "requestMutex" && name == "Unlock" && !deferred[v] {
					if x.unlockPos == 0 {
						x.unlockPos = v.Pos()
					}
				}
				if s, ok := writeCalls[name]; ok {
					add(s, true, v.Pos())
				} else if s, ok := readCalls[name]; ok {
					add(s, false, v.Pos())
				}
				if id, ok := sel.X.(*ast.Ident); ok {
					if x.recv != "" && id.Name == x.recv {
						x.calls = append(x.calls, struct {
							name string
							pos  token.Pos
						}{name, v.Pos()})
					}
					if id.Name == "project" || id.Name == "allProject" {
						if _, w := writeCalls[name]; !w {
							add("projectState", false, v.Pos())
						}
					}
					if id.Name == "common" && name != "GConfig" {
						// package-level helper, ignore
					}
				}
				if inner, ok := sel.X.(*ast.SelectorExpr); ok {
					if pid, ok := inner.X.(*ast.Ident); ok && pid.Name == "common" && inner.Sel.Name == "GConfig" {
						if _, w := writeCalls[name]; !w {
							add("gconfig", false, v.Pos())
						}
					}
				}
			}
		case *ast.SelectorExpr:
			if s, ok := isRecvField(v); ok && !written[v] {
				add(s, false, v.Pos())
			}
		}
		return true
	})
}
