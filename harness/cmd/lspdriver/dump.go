//go:build verif
// +build verif

package main

import (
	"encoding/json"
	"reflect"

	"luahelper-lsp/langserver/check/annotation/annotateast"
	"luahelper-lsp/langserver/check/annotation/annotatelexer"
)

// dumpValue turns any AST value into a generic JSON-able tree: structs become
// {"_t": TypeName, Field: ...}; location fields are dropped. No semantics here.
func dumpValue(v reflect.Value) interface{} {
	switch v.Kind() {
	case reflect.Interface, reflect.Ptr:
		if v.IsNil() {
			return nil
		}
		return dumpValue(v.Elem())
	case reflect.Struct:
		m := map[string]interface{}{"_t": v.Type().Name()}
		for i := 0; i < v.NumField(); i++ {
			f := v.Type().Field(i)
			if f.PkgPath != "" { // unexported
				continue
			}
			if f.Type.Name() == "Location" {
				continue
			}
			m[f.Name] = dumpValue(v.Field(i))
		}
		return m
	case reflect.Slice, reflect.Array:
		r := make([]interface{}, 0, v.Len())
		for i := 0; i < v.Len(); i++ {
			r = append(r, dumpValue(v.Index(i)))
		}
		return r
	case reflect.Map:
		m := map[string]interface{}{}
		it := v.MapRange()
		for it.Next() {
			k, _ := json.Marshal(dumpValue(it.Key()))
			m[string(k)] = dumpValue(it.Value())
		}
		return m
	case reflect.String:
		return v.String()
	case reflect.Bool:
		return v.Bool()
	case reflect.Int, reflect.Int8, reflect.Int16, reflect.Int32, reflect.Int64:
		return v.Int()
	case reflect.Uint, reflect.Uint8, reflect.Uint16, reflect.Uint32, reflect.Uint64:
		return v.Uint()
	case reflect.Float32, reflect.Float64:
		return v.Float()
	}
	return nil
}

func dumpFragment(frag annotateast.AnnotateFragment, errs []annotatelexer.ParseAnnotateErr) json.RawMessage {
	type e struct {
		Type int    `json:"type"`
		Str  string `json:"str"`
		Line int    `json:"line"`
	}
	var es []e
	for _, x := range errs {
		es = append(es, e{Type: int(x.ErrType), Str: x.ErrStr, Line: x.ErrLoc.StartLine})
	}
	var prints [][]string
	for _, st := range frag.Stats {
		prints = append(prints, printStat(st))
	}
	d, _ := json.Marshal(map[string]interface{}{
		"stats": dumpValue(reflect.ValueOf(frag.Stats)), "lines": frag.Lines, "errs": es, "prints": prints,
	})
	return d
}

// printStat returns the type printer's rendering (TypeConvertStr) of every type directly held by a statement.
func printStat(st annotateast.AnnotateState) []string {
	var r []string
	v := reflect.ValueOf(st)
	for v.Kind() == reflect.Ptr || v.Kind() == reflect.Interface {
		if v.IsNil() {
			return r
		}
		v = v.Elem()
	}
	if v.Kind() != reflect.Struct {
		return r
	}
	typ := reflect.TypeOf((*annotateast.Type)(nil)).Elem()
	for i := 0; i < v.NumField(); i++ {
		f := v.Field(i)
		if f.Type() == typ && !f.IsNil() {
			r = append(r, annotateast.TypeConvertStr(f.Interface().(annotateast.Type)))
		} else if f.Kind() == reflect.Slice && f.Type().Elem() == typ {
			for j := 0; j < f.Len(); j++ {
				if !f.Index(j).IsNil() {
					r = append(r, annotateast.TypeConvertStr(f.Index(j).Interface().(annotateast.Type)))
				}
			}
		}
	}
	return r
}
