//go:build verif
// +build verif

// lspdriver hosts the real LuaHelper server (langserver.CreateServer) in a child process and
// drives it with cases received as JSON lines on stdin. It uses its own raw message reader on
// the client end of channel.Direct() so that notifications are observed in wire order.
package main

import (
	"bufio"
	"bytes"
	"encoding/base64"
	"encoding/json"
	"flag"
	"fmt"
	"os"
	"path/filepath"
	"runtime/debug"
	"strings"
	"sync"
	"time"

	"github.com/yinfei8/jrpc2"
	"github.com/yinfei8/jrpc2/channel"

	"luahelper-lsp/langserver"
	"luahelper-lsp/langserver/check/annotation/annotateparser"
	"luahelper-lsp/langserver/check/common"
	"luahelper-lsp/langserver/codingconv"
	"luahelper-lsp/langserver/check/compiler/lexer"
	"luahelper-lsp/langserver/check/compiler/parser"

	"verifharness/internal/proto"
)

var (
	outMu sync.Mutex
	out   *bufio.Writer
)

func emit(l proto.Line) {
	b, _ := json.Marshal(l)
	outMu.Lock()
	out.Write(b)
	out.WriteByte('\n')
	out.Flush()
	outMu.Unlock()
}

type session struct {
	root    string
	srv     *jrpc2.Server
	cli     channel.Channel
	nextID  int
	mu      sync.Mutex
	waiters map[int]chan rawMsg
	caseID  int
	curStep int
	pending map[int]int // request id -> step (nowait)
	wg      sync.WaitGroup
}

type rawMsg struct {
	ID     *json.RawMessage `json:"id,omitempty"`
	Method string           `json:"method,omitempty"`
	Params json.RawMessage  `json:"params,omitempty"`
	Result json.RawMessage  `json:"result,omitempty"`
	Error  json.RawMessage  `json:"error,omitempty"`
}

var cur *session
var gmu sync.Mutex
var gCase int
var baseDir string
var seq int

func (s *session) reader() {
	for {
		b, err := s.cli.Recv()
		if err != nil {
			return
		}
		var m rawMsg
		if json.Unmarshal(b, &m) != nil {
			continue
		}
		if m.Method != "" {
			s.mu.Lock()
			st, id := s.curStep, s.caseID
			s.mu.Unlock()
			if m.ID != nil {
				// server->client request: answer null
				s.cli.Send([]byte(fmt.Sprintf(`{"jsonrpc":"2.0","id":%s,"result":null}`, string(*m.ID))))
			}
			emit(proto.Line{ID: id, Step: st, Kind: "ntf", Method: m.Method, Data: m.Params})
			continue
		}
		if m.ID == nil {
			continue
		}
		var id int
		if json.Unmarshal(*m.ID, &id) != nil {
			continue
		}
		s.mu.Lock()
		ch := s.waiters[id]
		delete(s.waiters, id)
		s.mu.Unlock()
		if ch != nil {
			ch <- m
		}
	}
}

func (s *session) send(method string, params json.RawMessage, notify bool) (int, chan rawMsg) {
	var buf bytes.Buffer
	if len(params) == 0 {
		params = json.RawMessage("null")
	}
	if notify {
		fmt.Fprintf(&buf, `{"jsonrpc":"2.0","method":%q,"params":%s}`, method, params)
		s.cli.Send(buf.Bytes())
		return 0, nil
	}
	s.mu.Lock()
	s.nextID++
	id := s.nextID
	ch := make(chan rawMsg, 1)
	s.waiters[id] = ch
	s.mu.Unlock()
	fmt.Fprintf(&buf, `{"jsonrpc":"2.0","id":%d,"method":%q,"params":%s}`, id, method, params)
	s.cli.Send(buf.Bytes())
	return id, ch
}

func (s *session) call(method string, params json.RawMessage) rawMsg {
	_, ch := s.send(method, params, false)
	return <-ch
}

// quiesce waits until every earlier notification handler has returned (jrpc2 admits a request
// only after all previously issued notifications finished) and its pushes are on the wire.
func (s *session) quiesce() {
	s.call("luahelper/getOnlineReq", json.RawMessage(`{"Req":0}`))
}

func (s *session) close() {
	if s.srv != nil {
		s.cli.Close()
		s.srv.Stop()
	}
	if s.root != "" {
		os.RemoveAll(s.root)
	}
}

func subst(p json.RawMessage, root string) json.RawMessage {
	if len(p) == 0 || !bytes.Contains(p, []byte("$ROOT")) {
		return p
	}
	return json.RawMessage(bytes.ReplaceAll(p, []byte("$ROOT"), []byte(root)))
}

func writeFile(root, rel string, data []byte) {
	p := filepath.Join(root, rel)
	os.MkdirAll(filepath.Dir(p), 0o755)
	os.WriteFile(p, data, 0o644)
}

const allOn = `{"client":"vsc","AllEnable":true,"CheckSyntax":true,"CheckNoDefine":true,"CheckAfterDefine":true,"CheckLocalNoUse":true,"CheckTableDuplicateKey":true,"CheckReferNoFile":true,"CheckAssignParamNum":true,"CheckLocalDefineParamNum":true,"CheckGotoLable":true,"CheckFuncParam":true,"CheckImportModuleVar":true,"CheckIfNotVar":true,"CheckFunctionDuplicateParam":true,"CheckBinaryExpressionDuplicate":true,"CheckErrorOrAlwaysTrue":true,"CheckErrorAndAlwaysFalse":true,"CheckNoUseAssign":true,"CheckAnnotateType":true,"CheckDuplicateIf":true,"CheckSelfAssign":true,"CheckFloatEq":true,"CheckClassField":true,"CheckConstAssign":true,"CheckFuncParamType":true,"CheckFuncReturnType":true}`

func startSession(c *proto.Case) *session {
	seq++
	root := filepath.Join(baseDir, fmt.Sprintf("w%d", seq))
	os.MkdirAll(root, 0o755)
	for rel, t := range c.Files {
		writeFile(root, rel, []byte(t))
	}
	for rel, t := range c.FilesB64 {
		b, _ := base64.StdEncoding.DecodeString(t)
		writeFile(root, rel, b)
	}
	common.GlobalConfigDefautInit()
	common.GConfig.IntialGlobalVar()
	s := &session{root: root, waiters: map[int]chan rawMsg{}, pending: map[int]int{}, caseID: c.ID, curStep: -1}
	cli, srvCh := channel.Direct()
	s.cli = cli
	s.srv = langserver.CreateServer()
	s.srv.Start(srvCh)
	go s.reader()
	init := c.Init
	if len(init) == 0 {
		init = json.RawMessage(allOn)
	}
	var folders bytes.Buffer
	folders.WriteString("[")
	for i, f := range c.Folders {
		if i > 0 {
			folders.WriteString(",")
		}
		fp := filepath.Join(root, f)
		fmt.Fprintf(&folders, `{"uri":%q,"name":%q}`, "file://"+fp, f)
	}
	folders.WriteString("]")
	ip := fmt.Sprintf(`{"processId":1,"rootPath":%q,"rootUri":%q,"capabilities":{},"workspaceFolders":%s,"initializationOptions":%s}`,
		root, "file://"+root, folders.String(), string(subst(init, root)))
	r := s.call("initialize", json.RawMessage(ip))
	if len(r.Error) > 0 {
		emit(proto.Line{ID: c.ID, Step: -1, Kind: "err", Method: "initialize", Data: r.Error})
	}
	s.send("initialized", json.RawMessage(`{}`), true)
	s.quiesce()
	if !c.NoPriming {
		s.send("workspace/didChangeConfiguration", json.RawMessage(`{"settings":{"luahelper":{"base":{"ReferenceMaxNum":3000,"ReferenceIncudeDefine":true,"PreviewFieldsNum":30}}}}`), true)
		s.quiesce()
	}
	return s
}

func runCase(c *proto.Case) {
	gmu.Lock()
	gCase = c.ID
	gmu.Unlock()
	switch c.Op {
	case "parse":
		runParse(c)
		return
	case "annot":
		runAnnot(c)
		return
	case "conv":
		// the text normalisation every comment goes through (codingconv.ConvertStrToUtf8)
		var res []string
		for _, t := range texts(c) {
			res = append(res, base64.StdEncoding.EncodeToString([]byte(codingconv.ConvertStrToUtf8(string(t)))))
		}
		d, _ := json.Marshal(res)
		emit(proto.Line{ID: c.ID, Kind: "parse", Data: d})
		emit(proto.Line{ID: c.ID, Kind: "done"})
		return
	}
	if !c.Keep || cur == nil {
		if cur != nil {
			cur.close()
			cur = nil
		}
		cur = startSession(c)
	} else {
		cur.mu.Lock()
		cur.caseID = c.ID
		cur.curStep = -1
		cur.mu.Unlock()
	}
	s := cur
	emit(proto.Line{ID: c.ID, Step: -1, Kind: "ready", Root: s.root})
	for i := range c.Steps {
		st := &c.Steps[i]
		s.mu.Lock()
		s.curStep = i
		s.mu.Unlock()
		t0 := time.Now()
		switch st.M {
		case "fs.write":
			data := []byte(st.Text)
			if st.B64 != "" {
				data, _ = base64.StdEncoding.DecodeString(st.B64)
			}
			writeFile(s.root, st.Path, data)
			emit(proto.Line{ID: c.ID, Step: i, Kind: "reply", Method: st.M})
		case "fs.delete":
			os.Remove(filepath.Join(s.root, st.Path))
			emit(proto.Line{ID: c.ID, Step: i, Kind: "reply", Method: st.M})
		case "peek":
			b, ok := langserver.VerifCachedText(filepath.Join(s.root, st.Path))
			d, _ := json.Marshal(map[string]interface{}{"found": ok, "b64": base64.StdEncoding.EncodeToString(b)})
			emit(proto.Line{ID: c.ID, Step: i, Kind: "peek", Data: d})
		case "diagkeys":
			sv, lv := langserver.VerifDiagKeys()
			for k := range sv {
				sv[k] = strings.TrimPrefix(sv[k], s.root+"/")
			}
			for k := range lv {
				lv[k] = strings.TrimPrefix(lv[k], s.root+"/")
			}
			d, _ := json.Marshal(map[string]interface{}{"saved": sv, "live": lv})
			emit(proto.Line{ID: c.ID, Step: i, Kind: "peek", Data: d})
		case "racelog":
			// hand over (and truncate) what the Go race detector has logged so far for this process
			txt := ""
			for _, kv := range strings.Fields(os.Getenv("GORACE")) {
				if strings.HasPrefix(kv, "log_path=") {
					fn := fmt.Sprintf("%s.%d", strings.TrimPrefix(kv, "log_path="), os.Getpid())
					if b, err := os.ReadFile(fn); err == nil {
						txt = string(b)
						os.Truncate(fn, 0)
					}
				}
			}
			d, _ := json.Marshal(txt)
			emit(proto.Line{ID: c.ID, Step: i, Kind: "peek", Data: d})
		case "barrier":
			s.wg.Wait()
			s.quiesce()
			emit(proto.Line{ID: c.ID, Step: i, Kind: "reply", Method: st.M})
		default:
			p := subst(st.P, s.root)
			if st.N {
				s.send(st.M, p, true)
				if !st.NoWait {
					s.quiesce()
				}
				emit(proto.Line{ID: c.ID, Step: i, Kind: "reply", Method: st.M, Ms: ms(t0)})
			} else if st.NoWait {
				rid, ch := s.send(st.M, p, false)
				s.wg.Add(1)
				go func(step, rid int, ch chan rawMsg, m string, t0 time.Time) {
					defer s.wg.Done()
					r := <-ch
					k, d := "reply", r.Result
					if len(r.Error) > 0 {
						k, d = "err", r.Error
					}
					emit(proto.Line{ID: c.ID, Step: step, Kind: k, Method: m, Data: d, Ms: ms(t0), ReqID: rid})
				}(i, rid, ch, st.M, t0)
			} else {
				r := s.call(st.M, p)
				k, d := "reply", r.Result
				if len(r.Error) > 0 {
					k, d = "err", r.Error
				}
				emit(proto.Line{ID: c.ID, Step: i, Kind: k, Method: st.M, Data: d, Ms: ms(t0)})
			}
		}
	}
	s.wg.Wait()
	emit(proto.Line{ID: c.ID, Step: len(c.Steps), Kind: "done"})
}

func ms(t0 time.Time) float64 { return float64(time.Since(t0).Microseconds()) / 1000 }

func texts(c *proto.Case) [][]byte {
	var r [][]byte
	for _, t := range c.Texts {
		r = append(r, []byte(t))
	}
	for _, t := range c.TextsB64 {
		b, _ := base64.StdEncoding.DecodeString(t)
		r = append(r, b)
	}
	return r
}

// runParse: the property's own equivalent observation point for C03 (parser.BeginAnalyze error list).
func runParse(c *proto.Case) {
	type pr struct {
		N     int      `json:"n"`
		First []int    `json:"first,omitempty"`
		Msg   string   `json:"msg,omitempty"`
	}
	var res []pr
	for _, t := range texts(c) {
		p := parser.CreateParser(t, "x.lua")
		_, _, errs := p.BeginAnalyze()
		r := pr{N: len(errs)}
		if len(errs) > 0 {
			l := errs[0].Loc
			r.First = []int{l.StartLine, l.StartColumn, l.EndLine, l.EndColumn}
			r.Msg = errs[0].ErrStr
		}
		res = append(res, r)
	}
	d, _ := json.Marshal(res)
	emit(proto.Line{ID: c.ID, Kind: "parse", Data: d})
	emit(proto.Line{ID: c.ID, Kind: "done"})
}

func runAnnot(c *proto.Case) {
	var res []json.RawMessage
	for _, t := range texts(c) {
		res = append(res, annotDump(string(t)))
	}
	d, _ := json.Marshal(res)
	emit(proto.Line{ID: c.ID, Kind: "parse", Data: d})
	emit(proto.Line{ID: c.ID, Kind: "done"})
}

func annotDump(text string) json.RawMessage {
	ci := &lexer.CommentInfo{}
	for i, ln := range strings.Split(text, "\n") {
		ci.LineVec = append(ci.LineVec, lexer.CommentLine{Str: ln, Line: i + 1, Col: 0})
	}
	frag, errs := annotateparser.ParseCommentFragment(ci)
	return dumpFragment(frag, errs)
}

func main() {
	flag.StringVar(&baseDir, "base", "", "scratch directory for workspaces")
	flag.Parse()
	if baseDir == "" {
		d, err := os.MkdirTemp("", "lspdriver")
		if err != nil {
			panic(err)
		}
		baseDir = d
		defer os.RemoveAll(d)
	}
	debug.SetMaxStack(96 << 20)
	out = bufio.NewWriterSize(os.Stdout, 1<<16)
	parser.VerifRecoveredHook = func(v interface{}) {
		if _, ok := v.(*lexer.TooManyErr); ok {
			return
		}
		gmu.Lock()
		id := gCase
		gmu.Unlock()
		st := -1
		if cur != nil {
			cur.mu.Lock()
			if cur.caseID == id {
				st = cur.curStep
			}
			cur.mu.Unlock()
		}
		d, _ := json.Marshal(fmt.Sprintf("%v", v))
		emit(proto.Line{ID: id, Step: st, Kind: "hook", Method: "ParserRecovered", Data: d})
	}
	in := bufio.NewReaderSize(os.Stdin, 1<<20)
	for {
		line, err := in.ReadBytes('\n')
		if len(bytes.TrimSpace(line)) > 0 {
			var c proto.Case
			if e := json.Unmarshal(line, &c); e != nil {
				fmt.Fprintf(os.Stderr, "bad case: %v\n", e)
			} else {
				runCase(&c)
			}
		}
		if err != nil {
			break
		}
	}
	if cur != nil {
		cur.close()
	}
}
