package main

import (
	"encoding/json"
	"fmt"
	"hash/fnv"
	"os"
	"sort"
	"strings"
	"verifharness/internal/pool"

	"verifharness/internal/proto"
)

// ---- Scope.tla items and their dumb rendering ----

type scItem struct {
	K       string `json:"k"`
	N       string `json:"n"`
	ID      int    `json:"id"`
	Fl      string `json:"fl"`
	U       string `json:"u"`
	B       int    `json:"b"`
	M       string `json:"m"`
	Mid     int    `json:"mid"`
	Nb      int    `json:"nb"`
	P       string `json:"p"`
	Pid     int    `json:"pid"`
	T       string `json:"t"`
	Tb      int    `json:"tb"`
	Colon   bool   `json:"colon"`
	SelfW   bool   `json:"selfw"`
	InFn    bool   `json:"infn"`
	Vis     []int  `json:"vis"`
	VisPend []int  `json:"vispend"`
	VisX    []int  `json:"visx"` // visible inside the statement's own expression when that differs from vis (elseif)
	hasVisX bool
	Top     bool `json:"top"`
	InGF    bool `json:"ingf"`
	hasVis  bool
	// as-built alternatives attached by TLC (-1 = deviation does not apply): binding predicted for slot u / n / t
	Alt   *scAlt `json:"alt"`
	Altn  *scAlt `json:"altn"`
	Altt  *scAlt `json:"altt"`
	Altm  *scAlt `json:"altm"`
	Mb    int    `json:"mb"`
	Call  bool   `json:"call"` // end: closes a function literal that is a call argument ("end)")
	RFile int    `json:"file"` // require: number of the required file
	Mi    int    `json:"mi"`   // meth: 1-based position of the item; muse: position of the method item whose member is read
	// set by a family before rendering (not part of TLC's record)
	Attr  bool   `json:"-"` // local: written with a <const> attribute
	MName string `json:"-"` // meth: the method's own name (default "mm"); when set an occurrence of role "mdef" is recorded
}

// UnmarshalJSON records whether TLC attached a vis set (closers appended at emission have none).
func (it *scItem) UnmarshalJSON(b []byte) error {
	type plain scItem
	var p plain
	if err := json.Unmarshal(b, &p); err != nil {
		return err
	}
	*it = scItem(p)
	it.hasVis = strings.Contains(string(b), `"vis"`)
	it.hasVisX = strings.Contains(string(b), `"visx"`)
	return nil
}

type scAlt struct {
	Init int `json:"init"`
	Forb int `json:"forb"`
	Hide int `json:"hide"`
}

// devs turns the alt record into deviation name -> predicted binding.
func (a *scAlt) devs() map[string]int {
	if a == nil {
		return nil
	}
	m := map[string]int{}
	if a.Init >= 0 {
		m["Dev_InitialiserSeesNewLocal"] = a.Init
	}
	if a.Forb >= 0 {
		m["Dev_ForBoundSeesLoopVar"] = a.Forb
	}
	if a.Hide >= 0 {
		m["Dev_EmptyLocalReboundHidesDecl"] = a.Hide
	}
	if len(m) == 0 {
		return nil
	}
	return m
}

type scGDef struct {
	N    string `json:"n"`
	ID   int    `json:"id"`
	File int    `json:"file"`
	Top  bool   `json:"top"`
}

type scCase struct {
	Fam    string          `json:"fam"`
	Items  []scItem        `json:"items"`
	GDefs  []scGDef        `json:"gdefs"`
	Reads  []int           `json:"reads"`
	NDecl  int             `json:"ndecl"`
	VisEnd []int           `json:"visend"`
	Extra  json.RawMessage `json:"extra"`
}

// occ is one identifier occurrence in the rendered text.
type occ struct {
	Item  int
	Slot  string // which field of the item
	Name  string
	File  int // 0-based
	Line  int // 0-based
	Col   int
	Role  string // "decl", "use", "write", "gdef"
	Decl  int    // id declared here (decl, gdef)
	B     int    // binding (use, write): local decl id or 0 = global
	Alt   map[string]int
	Kind  string // declaration kind for decl: local, param, loop, lfunc, lefunc, gfunc, self
	SelfW bool   // global assignment inside the function statement that defines the same global
}

type scRender struct {
	Files  []string   // file names
	Text   []string   // file contents
	Lines  [][]string // per file lines
	Occ    []occ
	DeclAt map[int]*occ   // decl id -> occurrence
	ItemAt map[int][2]int // item index -> (line, column) where its statement starts
}

// scMarkAttr writes a <const> attribute on every second local declaration (by position) that has an initialiser and whose
// names are never assigned again.
func scMarkAttr(items []scItem) {
	written := map[int]bool{}
	for _, it := range items {
		switch it.K {
		case "assign", "gfunc":
			written[it.Nb] = true
		case "assign2":
			written[it.Nb], written[it.Mb] = true, true
		}
	}
	for i := range items {
		it := &items[i]
		if i%2 != 0 {
			continue
		}
		if it.K == "local" && it.Fl != "none" && !written[it.ID] {
			it.Attr = true
		}
		if it.K == "local2" && !written[it.ID] && !written[it.Mid] {
			it.Attr = true
		}
	}
}

// scModNames: module names of the generated files (default f1, f2, ...). A family may name them like the program's
// variables (a, b) so that a global and a required module share a name.
var scModNames []string

func scModName(i int) string {
	if i < len(scModNames) {
		return scModNames[i]
	}
	return fmt.Sprintf("f%d", i+1)
}

// scMaybeProject names the only file of a single-file program as project entry (luahelper.json ProjectFiles) for a seeded
// quarter of such programs: the project pass then analyses the file as well. Programs of several files are left as they
// are (which globals a project file sees across the project boundary is not settled by the statements).
func scMaybeProject(pc *proto.Case, r *scRender) {
	if len(r.Files) != 1 || strings.TrimSpace(r.Text[0]) == "" {
		return
	}
	if hash64(r.Text[0], scSeed)%4 == 0 {
		pc.Files["luahelper.json"] = fmt.Sprintf(`{"ShowWarnFlag":1,"ProjectFiles":[%q]}`, r.Files[0])
	}
}

// scOpenSteps opens the files of a program. A seeded fifth of the single-file programs arrive as an unsaved edit: the
// file on disk (and the text first opened) is an older, unrelated version, and a didChange replaces the whole document
// with the program; nothing is saved. The questions are then about the text in the editor.
func scOpenSteps(pc *proto.Case, r *scRender) {
	localsOnly := true // (which text a global's workspace-wide table reflects before a save is not settled by the statements)
	for _, o := range r.Occ {
		if o.Role == "gdef" || ((o.Role == "use" || o.Role == "write") && o.B == 0) {
			localsOnly = false
		}
	}
	if scUnsaved && localsOnly && len(r.Files) == 1 && strings.TrimSpace(r.Text[0]) != "" && hash64(r.Text[0], scSeed+5)%3 == 1 {
		stale := "local zz_stale = 1\nprint(zz_stale)\n"
		f := r.Files[0]
		pc.Files[f] = stale
		pc.Steps = append(pc.Steps, openStep(f, stale), changeStep(f, 2, 0, 0, 2, 0, r.Text[0]))
		return
	}
	for i, f := range r.Files {
		pc.Steps = append(pc.Steps, openStep(f, r.Text[i]))
	}
	// a seeded third of the other programs are touched after opening: a comment line is appended to one file and not
	// saved. Nothing moves and nothing changes meaning, so every answer must be what it would be without the edit.
	// (not the workspaces whose files add members to each other's tables: while one of them has unsaved edits the
	// members declared across files come apart in the unchanged server already -- observed, see DESIGN.md 11.3 --
	// so the relations have no settled answer there)
	crossMembers := false
	if len(r.Files) > 1 {
		for _, o := range r.Occ {
			if o.Role == "mdef" || o.Role == "muse" {
				crossMembers = true
			}
		}
	}
	if hv := hash64(strings.Join(r.Text, "\x00"), scSeed+9); scUnsaved && !crossMembers && hv%3 == 0 {
		i := int(hv>>8) % len(r.Files)
		t := r.Text[i]
		nl := strings.Count(t, "\n")
		col, ins := 0, "-- touched\n"
		if !strings.HasSuffix(t, "\n") && t != "" {
			col = len(t) - strings.LastIndex(t, "\n") - 1
			ins = "\n-- touched\n"
		}
		pc.Steps = append(pc.Steps, changeStep(r.Files[i], 2, nl, col, nl, col, ins))
	}
}

// scTblVariants: 1 = the name read in a table constructor is written as positional value, computed key or named value
// (by position); 0 = always positional (development aid VERIF_TBLVAR=0, and C12, see DESIGN.md 11.4).
var scTblVariants = map[bool]int{true: 1, false: 0}[os.Getenv("VERIF_TBLVAR") != "0"]

// scUnsaved switches the unsaved-edit arrival on (development aid: VERIF_UNSAVED=0 turns it off).
var scUnsaved = os.Getenv("VERIF_UNSAVED") != "0"

func scFileName(i int) string { return scModName(i) + ".lua" }

// scRenderProg renders items one statement per line, ASCII only, no indentation.
func scRenderProg(items []scItem) *scRender { return scRenderMode(items, 0) }

// scModeOf picks the layout of a program: 0 = one statement per line, 1 = all statements of a file on one line
// (separated by single spaces; valid Lua because no generated statement starts with a parenthesis). The choice is a
// seeded hash of the behaviour, so that each run covers both layouts; the thorough tier runs every program in both.
func scModeOf(raw []byte, seed int64) int {
	h := fnv.New64a()
	h.Write(raw)
	return int((h.Sum64()^uint64(seed)*0x9e3779b97f4a7c15)>>11+uint64(scPass)) % 2
}

// scPass flips the layout choice (thorough tier: second pass over the same programs).
var scPass = 0

func scRenderMode(items []scItem, mode int) *scRender {
	r := &scRender{DeclAt: map[int]*occ{}, ItemAt: map[int][2]int{}}
	cur := 0
	r.Files = append(r.Files, scFileName(0))
	r.Lines = append(r.Lines, nil)
	add := func(idx int, parts ...interface{}) {
		// parts: strings are literal text; occ values mark identifiers
		var sb strings.Builder
		line := len(r.Lines[cur])
		if mode == 1 {
			line = 0
			if len(r.Lines[cur]) == 1 {
				sb.WriteString(r.Lines[cur][0])
				sb.WriteString(" ")
			}
		}
		r.ItemAt[idx] = [2]int{line, sb.Len()}
		defer func() {
			if mode == 1 {
				r.Lines[cur] = []string{sb.String()}
			}
		}()
		for _, p := range parts {
			switch v := p.(type) {
			case string:
				sb.WriteString(v)
			case occ:
				v.Item = idx
				v.File = cur
				v.Line = line
				v.Col = sb.Len()
				sb.WriteString(v.Name)
				r.Occ = append(r.Occ, v)
			}
		}
		if mode != 1 {
			r.Lines[cur] = append(r.Lines[cur], sb.String())
		}
	}
	decl := func(slot, n string, id int, kind string) occ {
		return occ{Slot: slot, Name: n, Role: "decl", Decl: id, Kind: kind}
	}
	use := func(slot, n string, b int, alt *scAlt) occ {
		return occ{Slot: slot, Name: n, Role: "use", B: b, Alt: alt.devs()}
	}
	for i, it := range items {
		switch it.K {
		case "local":
			if it.Attr && it.Fl != "none" {
				rhs := map[string][]interface{}{"bare": {use("u", it.U, it.B, it.Alt)}, "binop": {use("u", it.U, it.B, it.Alt), " + 1"},
					"call": {"tostring(", use("u", it.U, it.B, it.Alt), ")"}, "table": {"{", use("u", it.U, it.B, it.Alt), "}"}}[it.Fl]
				add(i, append([]interface{}{"local ", decl("n", it.N, it.ID, "local"), " <const> = "}, rhs...)...)
				continue
			}
			switch it.Fl {
			case "none":
				add(i, "local ", decl("n", it.N, it.ID, "local"))
			case "bare":
				add(i, "local ", decl("n", it.N, it.ID, "local"), " = ", use("u", it.U, it.B, it.Alt))
			case "binop":
				add(i, "local ", decl("n", it.N, it.ID, "local"), " = ", use("u", it.U, it.B, it.Alt), " + 1")
			case "call":
				add(i, "local ", decl("n", it.N, it.ID, "local"), " = tostring(", use("u", it.U, it.B, it.Alt), ")")
			case "table":
				// the name is read inside a table constructor: as a positional value, as a computed key or as a named value
				switch ((it.ID + len(items)) % 3) * scTblVariants {
				case 1:
					add(i, "local ", decl("n", it.N, it.ID, "local"), " = {[", use("u", it.U, it.B, it.Alt), "] = 1}")
				case 2:
					add(i, "local ", decl("n", it.N, it.ID, "local"), " = {k = ", use("u", it.U, it.B, it.Alt), "}")
				default:
					add(i, "local ", decl("n", it.N, it.ID, "local"), " = {", use("u", it.U, it.B, it.Alt), "}")
				}
			}
		case "local2":
			if it.Attr {
				add(i, "local ", decl("n", it.N, it.ID, "local"), " <const>, ", decl("m", it.M, it.Mid, "local"), " <const> = ", use("u", it.U, it.B, it.Alt))
				continue
			}
			add(i, "local ", decl("n", it.N, it.ID, "local"), ", ", decl("m", it.M, it.Mid, "local"), " = ", use("u", it.U, it.B, it.Alt))
		case "use":
			add(i, "print(", use("u", it.U, it.B, it.Alt), ")")
		case "guse":
			add(i, "print(_G.", use("u", it.U, 0, nil), ")")
		case "iassign":
			add(i, use("t", it.T, it.Tb, it.Altt), "[", use("u", it.U, it.B, it.Alt), "] = 1")
		case "muse":
			add(i, "print(", use("t", it.T, it.Tb, it.Altt), ".", occ{Slot: "mn", Name: fmt.Sprintf("mm%d", it.Mi), Role: "muse", Kind: "meth"}, ")")
		case "ret":
			add(i, "return ", use("u", it.U, it.B, it.Alt))
		case "require":
			add(i, "local ", decl("n", it.N, it.ID, "local"), fmt.Sprintf(" = require(%q)", scModName(it.RFile-1)))
		case "assign":
			var tgt occ
			if it.Nb != 0 {
				tgt = occ{Slot: "n", Name: it.N, Role: "write", B: it.Nb, Alt: it.Altn.devs()}
			} else {
				tgt = occ{Slot: "n", Name: it.N, Role: "gdef", Decl: it.ID, Kind: "global", SelfW: it.SelfW}
			}
			if it.Fl == "const" {
				add(i, tgt, " = 1")
			} else {
				add(i, tgt, " = ", use("u", it.U, it.B, it.Alt))
			}
		case "assign2":
			tg := func(slot, n string, b, id int, alt *scAlt) occ {
				if b != 0 {
					return occ{Slot: slot, Name: n, Role: "write", B: b, Alt: alt.devs()}
				}
				return occ{Slot: slot, Name: n, Role: "gdef", Decl: id, Kind: "global"}
			}
			add(i, tg("n", it.N, it.Nb, it.ID, it.Altn), ", ", tg("m", it.M, it.Mb, it.Mid, it.Altm), " = tostring(", use("u", it.U, it.B, it.Alt), ")")
		case "do":
			add(i, "do")
		case "while":
			add(i, "while ", use("u", it.U, it.B, it.Alt), " do")
		case "if":
			add(i, "if ", use("u", it.U, it.B, it.Alt), " then")
		case "elseif":
			add(i, "elseif ", use("u", it.U, it.B, it.Alt), " then")
		case "else":
			add(i, "else")
		case "repeat":
			add(i, "repeat")
		case "until":
			add(i, "until ", use("u", it.U, it.B, it.Alt))
		case "untilc":
			add(i, "until true")
		case "fornum":
			add(i, "for ", decl("n", it.N, it.ID, "loop"), " = ", use("u", it.U, it.B, it.Alt), ", 10 do")
		case "forin":
			add(i, "for ", decl("n", it.N, it.ID, "loop"), " in pairs(", use("u", it.U, it.B, it.Alt), ") do")
		case "lfunc":
			add(i, "local function ", decl("n", it.N, it.ID, "lfunc"), "(", decl("p", it.P, it.Pid, "param"), ")")
		case "lefunc":
			add(i, "local ", decl("n", it.N, it.ID, "lefunc"), " = function(", decl("p", it.P, it.Pid, "param"), ")")
		case "gfunc":
			var tgt occ
			if it.Nb != 0 {
				tgt = occ{Slot: "n", Name: it.N, Role: "write", B: it.Nb, Alt: it.Altn.devs()}
			} else {
				tgt = occ{Slot: "n", Name: it.N, Role: "gdef", Decl: it.ID, Kind: "gfunc"}
			}
			add(i, "function ", tgt, "(", decl("p", it.P, it.Pid, "param"), ")")
		case "meth":
			sep := "."
			if it.Colon {
				sep = ":"
			}
			if it.MName != "" {
				add(i, "function ", use("t", it.T, it.Tb, it.Altt), sep, occ{Slot: "mn", Name: it.MName, Role: "mdef", Kind: "meth"}, "(", decl("p", it.P, it.Pid, "param"), ")")
			} else {
				add(i, "function ", use("t", it.T, it.Tb, it.Altt), sep+"mm(", decl("p", it.P, it.Pid, "param"), ")")
			}
		case "cfunc":
			add(i, "pcall(function(", decl("p", it.P, it.Pid, "param"), ")")
		case "cchain":
			add(i, "end):next(function(", decl("p", it.P, it.Pid, "param"), ")")
		case "end":
			if it.Call {
				add(i, "end)")
			} else {
				add(i, "end")
			}
		case "file":
			cur++
			r.Files = append(r.Files, scFileName(cur))
			r.Lines = append(r.Lines, nil)
		}
	}
	for f := range r.Lines {
		r.Text = append(r.Text, strings.Join(r.Lines[f], "\n")+"\n")
	}
	for i := range r.Occ {
		o := &r.Occ[i]
		if o.Role == "decl" || o.Role == "gdef" {
			r.DeclAt[o.Decl] = o
		}
	}
	return r
}

func (r *scRender) files() map[string]string {
	m := map[string]string{}
	for i, f := range r.Files {
		m[f] = r.Text[i]
	}
	return m
}

func posParams(file string, line, col int) json.RawMessage {
	return json.RawMessage(fmt.Sprintf(`{"textDocument":{"uri":"file://$ROOT/%s"},"position":{"line":%d,"character":%d}}`, file, line, col))
}

// lspLoc is a location returned by the server, projected to (file, line, col).
type lspLoc struct {
	File   string
	SL, SC int
	EL, EC int
}

type rawLoc struct {
	URI   string `json:"uri"`
	Range struct {
		Start struct{ Line, Character int } `json:"start"`
		End   struct{ Line, Character int } `json:"end"`
	} `json:"range"`
}

func projLocs(root string, reply json.RawMessage) ([]lspLoc, bool) {
	if len(reply) == 0 || string(reply) == "null" {
		return nil, true
	}
	var rl []rawLoc
	if err := json.Unmarshal(reply, &rl); err != nil {
		var one rawLoc
		if err2 := json.Unmarshal(reply, &one); err2 != nil {
			return nil, false
		}
		rl = []rawLoc{one}
	}
	var out []lspLoc
	for _, l := range rl {
		f := strings.TrimPrefix(l.URI, "file://")
		f = strings.TrimPrefix(f, root+"/")
		out = append(out, lspLoc{f, l.Range.Start.Line, l.Range.Start.Character, l.Range.End.Line, l.Range.End.Character})
	}
	sort.Slice(out, func(i, j int) bool {
		a, b := out[i], out[j]
		if a.File != b.File {
			return a.File < b.File
		}
		if a.SL != b.SL {
			return a.SL < b.SL
		}
		return a.SC < b.SC
	})
	return out, true
}

func (r *scRender) occAt(file string, line, col int) *occ {
	for i := range r.Occ {
		o := &r.Occ[i]
		if r.Files[o.File] == file && o.Line == line && o.Col == col {
			return o
		}
	}
	return nil
}

// gdefIDs returns the ids of the definitions of global name n.
func gdefIDs(tc *scCase, n string) []int {
	var r []int
	for _, g := range tc.GDefs {
		if g.N == n {
			r = append(r, g.ID)
		}
	}
	sort.Ints(r)
	return r
}

func openStep(file, text string) proto.Step {
	return proto.Step{M: "textDocument/didOpen", N: true,
		P: json.RawMessage(fmt.Sprintf(`{"textDocument":{"uri":"file://$ROOT/%s","languageId":"lua","version":1,"text":%s}}`, file, jstr(text)))}
}

func progText(r *scRender) string {
	var sb strings.Builder
	for i, f := range r.Files {
		sb.WriteString("-- " + f + "\n" + r.Text[i])
	}
	return sb.String()
}

// ---- scenarios shared by C06, C11 and C12: a global used in more files than the reference search has workers, and a
// file that is created after start-up ----

// wideGlobal runs the scenario and hands the answers to judge: refs1/refs2 = find-references asked at the declaration
// and at a use (after a further user file was created and reported), ren = the rename edit asked at the declaration,
// defs = go-to-definition asked at every use. want = all occurrences "file:line:col" (sorted).
func wideGlobal(c *Ctx, p *pool.Pool, prop string, judge func(want []string, refs1, refs2, ren []string, defs map[string][]string, raw json.RawMessage)) {
	const n = 26
	files := map[string]string{"def.lua": "gwide = 1\nprint(gwide)\n"}
	want := []string{"def.lua:0:0", "def.lua:1:6"}
	for i := 0; i < n; i++ {
		fn := fmt.Sprintf("user%02d.lua", i)
		files[fn] = fmt.Sprintf("local u%d = gwide\nprint(u%d, gwide)\n", i, i)
		want = append(want, fmt.Sprintf("%s:0:%d", fn, len(fmt.Sprintf("local u%d = ", i))), fmt.Sprintf("%s:1:%d", fn, len(fmt.Sprintf("print(u%d, ", i))))
	}
	late := "print(gwide)\nprint(gwide)\n"
	want = append(want, "late.lua:0:6", "late.lua:1:6")
	sort.Strings(want)
	pc := &proto.Case{ID: 1, Files: files, Init: json.RawMessage(allOnLocal)}
	pc.Steps = append(pc.Steps, openStep("def.lua", files["def.lua"]),
		proto.Step{M: "fs.write", Path: "late.lua", Text: late},
		proto.Step{M: "workspace/didChangeWatchedFiles", N: true, P: json.RawMessage(`{"changes":[{"uri":"file://$ROOT/notes.txt","type":2},{"uri":"file://$ROOT/late.lua","type":1}]}`)},
		proto.Step{M: "textDocument/references", P: refParams("def.lua", 0, 1)},
		proto.Step{M: "textDocument/references", P: refParams("def.lua", 1, 7)},
		proto.Step{M: "textDocument/rename", P: json.RawMessage(`{"textDocument":{"uri":"file://$ROOT/def.lua"},"position":{"line":0,"character":1},"newName":"zz_wide"}`)})
	base := len(pc.Steps)
	useFiles := []string{"late.lua"}
	for i := 0; i < n; i++ {
		useFiles = append(useFiles, fmt.Sprintf("user%02d.lua", i))
	}
	for _, f := range useFiles {
		text := files[f]
		if f == "late.lua" {
			text = late
		}
		pc.Steps = append(pc.Steps, openStep(f, text), proto.Step{M: "textDocument/definition", P: posParams(f, 1, strings.Index(strings.Split(text, "\n")[1], "gwide")+1)})
	}
	raw, _ := json.Marshal(map[string]interface{}{"fam": "wide-global", "files": n + 2})
	locs := func(root string, sr *proto.StepResult) []string {
		ls, _ := projLocs(root, sr.Reply)
		var out []string
		for _, l := range ls {
			out = append(out, fmt.Sprintf("%s:%d:%d", l.File, l.SL, l.SC))
		}
		sort.Strings(out)
		return out
	}
	p.RunSlice([][]*proto.Case{{pc}}, func(_ *proto.Case, res *proto.Result) {
		c.Rep.Eval("wide-global")
		if res.Crash != "" || res.Hang {
			c.Rep.Violation(raw, fmt.Sprintf("a global used in %d files: server died or hung (crash=%q)", n+2, res.Crash))
			return
		}
		var we struct {
			Changes map[string][]rawEdit `json:"changes"`
		}
		json.Unmarshal(res.Steps[base-1].Reply, &we)
		var ren []string
		for uri, es := range we.Changes {
			f := strings.TrimPrefix(strings.TrimPrefix(uri, "file://"), res.Root+"/")
			for _, e := range es {
				x := fmt.Sprintf("%s:%d:%d", f, e.Range.Start.Line, e.Range.Start.Character)
				if e.Range.End.Character-e.Range.Start.Character != 5 || e.Range.End.Line != e.Range.Start.Line {
					x += "(bad range)"
				}
				ren = append(ren, x)
			}
		}
		sort.Strings(ren)
		defs := map[string][]string{}
		for i, f := range useFiles {
			defs[f] = locs(res.Root, &res.Steps[base+2*i+1])
		}
		judge(want, locs(res.Root, &res.Steps[base-3]), locs(res.Root, &res.Steps[base-2]), ren, defs, raw)
	})
	c.Rep.Traces++
}

func init() {
	registry["WIDE"] = func(c *Ctx) { // development entry: the wide-global scenario alone
		p := c.NewPool(1)
		wideGlobal(c, p, "WIDE", func(want, refs1, refs2, ren []string, defs map[string][]string, raw json.RawMessage) {
			fmt.Printf("want=%d refs1=%d refs2=%d ren=%d defs=%v equal=%v/%v/%v\n", len(want), len(refs1), len(refs2), len(ren), defs,
				strings.Join(want, " ") == strings.Join(refs1, " "), strings.Join(want, " ") == strings.Join(refs2, " "), strings.Join(want, " ") == strings.Join(ren, " "))
		})
	}
}
