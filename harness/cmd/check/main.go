// check is the orchestrator: `check <property> <quick|thorough> [--replay file]`.
// It runs TLC on the specifications under /verif/specs, turns the behaviours TLC prints into
// cases for the real server (run in lspdriver child processes built from /repo's working tree),
// compares observations with the expectations TLC attached, and writes evidence.
package main

import (
	"encoding/json"
	"fmt"
	"os"
	"os/exec"
	"path/filepath"
	"runtime"
	"strconv"
	"strings"
	"time"

	"verifharness/internal/evid"
	"verifharness/internal/pool"
	"verifharness/internal/tlc"
)

// Ctx is what every property check receives.
type Ctx struct {
	Root    string // /verif
	Prop    string
	Tier    string
	Seed    int64
	Replay  string
	Rep     *evid.Report
	Driver  string // path of lspdriver binary
	Scratch string
	NProc   int
}

func (c *Ctx) Thorough() bool { return c.Tier == "thorough" }

// NewPool makes a child pool.
func (c *Ctx) NewPool(n int) *pool.Pool {
	if n <= 0 {
		n = c.NProc
	}
	return &pool.Pool{Bin: c.Driver, N: n, BaseDir: filepath.Join(c.Scratch, "ws"), Budget: 20 * time.Second}
}

// TLC runs a module with a cfg text.
func (c *Ctx) TLC(r tlc.Run, onJ func(json.RawMessage)) (tlc.Stats, error) {
	r.SpecDir = filepath.Join(c.Root, "specs")
	if r.Seed == 0 {
		r.Seed = c.Seed
	}
	if r.JavaOpts == "" {
		r.JavaOpts = "-Xmx8g -Xmn256m -XX:ParallelGCThreads=4"
	}
	st, err := tlc.Exec(r, onJ)
	if err == nil {
		c.Rep.AddTLC(st)
	}
	return st, err
}

type checkFn func(c *Ctx)

var registry = map[string]checkFn{}

func buildDriver(root, out string, race bool) error {
	args := []string{"build", "-tags", "verif", "-o", out}
	if race {
		args = append(args, "-race")
	}
	// VERIF_REPO (development aid for trying seeded changes in a scratch worktree): build the driver against another
	// checkout instead of /repo. The registered commands never set it.
	if alt := os.Getenv("VERIF_REPO"); alt != "" {
		gm, err := os.ReadFile(filepath.Join(root, "harness", "go.mod"))
		if err != nil {
			return err
		}
		gs, _ := os.ReadFile(filepath.Join(root, "harness", "go.sum"))
		mf := out + ".go.mod"
		os.WriteFile(mf, []byte(strings.Replace(string(gm), "/repo/luahelper-lsp", filepath.Join(alt, "luahelper-lsp"), 1)), 0o644)
		os.WriteFile(out+".go.sum", gs, 0o644)
		args = append(args, "-modfile", mf)
	}
	args = append(args, "./cmd/lspdriver")
	cmd := exec.Command("go", args...)
	cmd.Dir = filepath.Join(root, "harness")
	cmd.Env = append(os.Environ(), "GOFLAGS=-mod=mod", "GOPROXY=off", "GOSUMDB=off", "GOTOOLCHAIN=local")
	b, err := cmd.CombinedOutput()
	if err != nil {
		return fmt.Errorf("building lspdriver from /repo failed: %v\n%s", err, string(b))
	}
	return nil
}

func main() {
	if len(os.Args) < 3 {
		fmt.Fprintln(os.Stderr, "usage: check <property> <quick|thorough> [--replay file]")
		os.Exit(2)
	}
	root := os.Getenv("VERIF_ROOT")
	if root == "" {
		root = "/verif"
	}
	c := &Ctx{Root: root, Prop: os.Args[1], Tier: os.Args[2], NProc: runtime.NumCPU()}
	if t := os.Getenv("VERIF_TIER"); t != "" && (t == "quick" || t == "thorough") && len(os.Args) == 3 && os.Args[2] == "" {
		c.Tier = t
	}
	if c.Tier != "quick" && c.Tier != "thorough" {
		fmt.Fprintln(os.Stderr, "tier must be quick or thorough")
		os.Exit(2)
	}
	c.Seed = 1
	if s := os.Getenv("VERIF_SEED"); s != "" {
		if v, err := strconv.ParseInt(strings.TrimSpace(s), 10, 64); err == nil {
			c.Seed = v
		}
	}
	for i := 3; i < len(os.Args); i++ {
		if os.Args[i] == "--replay" && i+1 < len(os.Args) {
			c.Replay = os.Args[i+1]
			i++
		}
	}
	fn, ok := registry[c.Prop]
	if !ok {
		fmt.Fprintf(os.Stderr, "unknown property %s\n", c.Prop)
		os.Exit(2)
	}
	scratch, err := os.MkdirTemp("", "verif-"+c.Prop+"-")
	if err != nil {
		fmt.Fprintln(os.Stderr, err)
		os.Exit(2)
	}
	c.Scratch = scratch
	c.Rep = evid.New(root, c.Prop, c.Tier, c.Seed)
	code := 2
	func() {
		defer os.RemoveAll(scratch)
		c.Driver = filepath.Join(scratch, "lspdriver")
		if err := buildDriver(root, c.Driver, false); err != nil {
			fmt.Fprintln(os.Stderr, err)
			c.Rep.Fatal("cannot build driver from /repo: " + err.Error())
			code = c.Rep.Finish()
			return
		}
		fn(c)
		code = c.Rep.Finish()
	}()
	os.Exit(code)
}
