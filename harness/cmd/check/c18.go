package main

import (
	"encoding/json"
	"fmt"
	"sort"
	"strings"
	"time"

	"verifharness/internal/proto"
	"verifharness/internal/tlc"
)

func init() { registry["C18"] = checkC18 }

type mpExp struct {
	Res  []string `json:"res"`
	Pref []string `json:"pref"`
	So   bool     `json:"so"`
}

type mpCase struct {
	Fam   string   `json:"fam"`
	Tree0 []string `json:"tree0"`
	Mod   string   `json:"mod"`
	Sp    string   `json:"sp"`
	Exp0  mpExp    `json:"exp0"`
	Hist  []struct {
		Ev  string `json:"ev"`
		F   string `json:"f"`
		Exp mpExp  `json:"exp"`
	} `json:"hist"`
}

type mpData struct {
	tc     *mpCase
	phases [][3]int // per phase: step of definition(string), hover(string), definition(member)
	ends   []int    // last step of each phase (for folding diagnostics)
	main   string
}

func mpFileText(f string) string {
	if strings.HasSuffix(f, ".so") {
		return "\x7fELF\x02\x01\x01"
	}
	return "local M = {}\nM.fx = 1\nreturn M\n"
}

func mpBuild(id int, raw json.RawMessage) *Job {
	var tc mpCase
	if json.Unmarshal(raw, &tc) != nil {
		return nil
	}
	fn := "require"
	if tc.Sp == "dofile" {
		fn = "dofile"
	}
	main := fmt.Sprintf("local mm = %s(\"%s\")\nprint(mm.fx)\n", fn, tc.Mod)
	pc := &proto.Case{ID: id, Files: map[string]string{"main.lua": main}, Init: json.RawMessage(allOnLocal)}
	for _, f := range tc.Tree0 {
		pc.Files[f] = mpFileText(f)
	}
	d := &mpData{tc: &tc, main: main}
	strCol := len("local mm = "+fn+"(\"") + 1
	pc.Steps = append(pc.Steps, openStep("main.lua", main))
	q := func() {
		var st [3]int
		pc.Steps = append(pc.Steps, proto.Step{M: "textDocument/definition", P: posParams("main.lua", 0, strCol)})
		st[0] = len(pc.Steps) - 1
		pc.Steps = append(pc.Steps, proto.Step{M: "textDocument/hover", P: posParams("main.lua", 0, strCol)})
		st[1] = len(pc.Steps) - 1
		pc.Steps = append(pc.Steps, proto.Step{M: "textDocument/definition", P: posParams("main.lua", 1, 9)})
		st[2] = len(pc.Steps) - 1
		d.phases = append(d.phases, st)
		d.ends = append(d.ends, len(pc.Steps)-1)
	}
	q()
	for ei, e := range tc.Hist {
		// a seeded third of the events reach the server the way an atomic replace does: one notification carrying two
		// events for the path (deleted+created for a file that now exists, created+deleted for one that does not)
		double := hash64(string(raw), int64(ei)+scSeed)%3 == 0
		batch := func(a, b int) proto.Step {
			return proto.Step{M: "workspace/didChangeWatchedFiles", N: true,
				P: json.RawMessage(fmt.Sprintf(`{"changes":[{"uri":"file://$ROOT/%s","type":%d},{"uri":"file://$ROOT/%s","type":%d}]}`, e.F, a, e.F, b))}
		}
		if e.Ev == "Create" {
			pc.Steps = append(pc.Steps, proto.Step{M: "fs.write", Path: e.F, Text: mpFileText(e.F)})
			if double {
				pc.Steps = append(pc.Steps, batch(3, 1))
			} else {
				pc.Steps = append(pc.Steps, watched(e.F, 1))
			}
		} else {
			pc.Steps = append(pc.Steps, proto.Step{M: "fs.delete", Path: e.F})
			if double {
				pc.Steps = append(pc.Steps, batch(1, 3))
			} else {
				pc.Steps = append(pc.Steps, watched(e.F, 3))
			}
		}
		q()
	}
	return &Job{PC: pc, Data: d}
}

func inSet(s []string, x string) bool {
	for _, y := range s {
		if y == x {
			return true
		}
	}
	return false
}

func mpJudge(c *Ctx, j *Job, res *proto.Result) {
	d := j.Data.(*mpData)
	c.Rep.Eval(string(j.Raw))
	if res.Crash != "" || res.Hang {
		c.Rep.Violation(j.Raw, fmt.Sprintf("server died or hung (crash=%q hang=%v at step %d)", res.Crash, res.Hang, res.AtStep))
		return
	}
	view := map[string][]diag{}
	foldDiags(res.Root, view, res.InitNtfs)
	si := 0
	for ph := range d.phases {
		for ; si <= d.ends[ph]; si++ {
			foldDiags(res.Root, view, res.Steps[si].Ntfs)
		}
		exp := d.tc.Exp0
		label := "initially"
		if ph > 0 {
			exp = d.tc.Hist[ph-1].Exp
			label = fmt.Sprintf("after %s %s", d.tc.Hist[ph-1].Ev, d.tc.Hist[ph-1].F)
		}
		t6 := false
		for _, x := range view["main.lua"] {
			if x.Type == 6 && x.SL == 0 {
				t6 = true
			}
		}
		var prob []string
		sig := ""
		wantT6 := len(exp.Res) == 0 && !exp.So
		if t6 != wantT6 {
			prob = append(prob, fmt.Sprintf("'file not found' diagnostic shown=%v, but the module denotes %v (native library tolerated: %v)", t6, exp.Res, exp.So))
			sig += fmt.Sprintf("t6=%v/want=%v ", t6, wantT6)
		}
		defS, _ := projLocs(res.Root, res.Steps[d.phases[ph][0]].Reply)
		defM, _ := projLocs(res.Root, res.Steps[d.phases[ph][2]].Reply)
		hov := string(res.Steps[d.phases[ph][1]].Reply)
		hovFile := strings.Contains(hov, "lua file")
		if len(exp.Res) == 0 {
			if len(defS) != 0 {
				prob = append(prob, fmt.Sprintf("definition on the module string leads to %v although no file matches", defS))
				sig += "defS-on-nothing "
			}
			if hovFile && !exp.So {
				prob = append(prob, "hover on the module string names a lua file although no file matches: "+hov)
				sig += "hover-on-nothing "
			}
		} else {
			if len(defS) != 1 || !inSet(exp.Res, defS[0].File) {
				prob = append(prob, fmt.Sprintf("definition on the module string leads to %v, the module denotes %v", defS, exp.Res))
				sig += fmt.Sprintf("defS-wrong(n=%d) ", len(defS))
			} else if !inSet(exp.Pref, defS[0].File) {
				prob = append(prob, fmt.Sprintf("definition on the module string prefers %s although the documented order (name.lua before name/init.lua) gives %v", defS[0].File, exp.Pref))
				sig += "pref "
			}
			if !hovFile {
				prob = append(prob, "hover on the module string does not name a lua file: "+hov)
				sig += "hover-nofile "
			}
			if d.tc.Sp != "dofile" {
				// the file the analysis loaded, observed through the imported member
				if exp.So && len(defM) == 1 && defM[0].File == "main.lua" && defM[0].SL == 0 && defM[0].SC == 6 {
					// as-built: a native library of the same name makes the analysis treat the module as opaque although a Lua
					// file matches too; the member then resolves to the local that holds the module
					c.Rep.Deviation("Dev_NativeLibShadowsLuaModule", fmt.Sprintf("%s (tree0=%v, %s): definition on the string leads to %v, member mm.fx resolves to the local mm", label, d.tc.Tree0, strings.TrimSpace(d.main), defS), j.Raw)
				} else if len(defM) == 1 && len(defS) == 1 && defM[0].File != defS[0].File && len(exp.Res) >= 2 && inSet(exp.Res, defM[0].File) && inSet(exp.Res, defS[0].File) &&
					(ph > 0 || strings.Count(defM[0].File, "/") == strings.Count(defS[0].File, "/")) {
					// (on the initial tree only candidates at the same directory depth are "equal": the as-built choice
					// prefers the shallower file; after an event the analysis may still hold the choice it made before)
					// as-built: several files match the module equally; the query and the analysis each pick one (map order)
					c.Rep.Deviation("Dev_EqualScoreCandidates", fmt.Sprintf("%s (tree0=%v, %s): definition on the string leads to %s, the analysis loaded %s; both match", label, d.tc.Tree0, strings.TrimSpace(d.main), defS[0].File, defM[0].File), j.Raw)
				} else if len(defM) != 1 || len(defS) != 1 || defM[0].File != defS[0].File {
					prob = append(prob, fmt.Sprintf("definition on the module string leads to %v but the member mm.fx resolves in %v: the features disagree about the loaded file", defS, defM))
					sig += fmt.Sprintf("member-disagrees(n=%d) ", len(defM))
				}
			}
		}
		if len(prob) == 0 {
			continue
		}
		sort.Strings(prob)
		desc := fmt.Sprintf("%s (tree0=%v, %s): %s", label, d.tc.Tree0, strings.TrimSpace(d.main), strings.Join(prob, "; "))
		if surveyMode {
			sv.add(fmt.Sprintf("sp=%s phase=%d %s", d.tc.Sp, ph, sig), desc)
			return
		}
		c.Rep.Violation(j.Raw, desc)
		return
	}
}

func checkC18(c *Ctx) {
	c.Rep.Rule = "ModPath.tla enumerates directory trees (subsets of 10 candidate files, at most 3 present initially in the quick tier, incl. duplicates in sibling directories, init.lua packages and a native library), 6 module names, 3 spellings (dotted, slashed, dofile with suffix) and create/delete events; each case runs on a fresh real server: type 6 must be shown exactly when TLC's Resolves is empty (and no native library is tolerated), definition and hover on the string must lead to a member of Resolves (documented preference name.lua over name/init.lua), and the member imported through the module must resolve in that same file; checked again after every event"
	c.Rep.Assumptions = []string{
		"documented mapping with ReferMatchPathFlag=0: a module denotes every file whose path ends with m.lua or m/init.lua at a component boundary; which of several matches is chosen is UNSPECIFIED except name.lua before name/init.lua in the same directory",
		"the loaded file is observed without a hook through go-to-definition on a member of the required module",
	}
	cfg := func(n int, invs string) string {
		mt := 3
		if c.Thorough() {
			mt = 10
		}
		return fmt.Sprintf("CONSTANTS\n  MaxEvents = %d\n  MaxTree = %d\nINIT Init\nNEXT Next\nINVARIANTS %s\nCHECK_DEADLOCK FALSE\n", n, mt, invs)
	}
	if c.Replay != "" {
		raw, err := loadReplayCase(c.Replay)
		if err != nil {
			c.Rep.Fatal(err.Error())
			return
		}
		jb := mpBuild(1, raw)
		jb.Raw = raw
		p := c.NewPool(1)
		p.RunSlice([][]*proto.Case{{jb.PC}}, func(_ *proto.Case, r *proto.Result) { mpJudge(c, jb, r) })
		return
	}
	p := c.NewPool(0)
	if !c.streamRun("trees_one_event", tlc.Run{Module: "ModPath", Workers: 4, Timeout: 30 * time.Minute, Cfg: cfg(1, "Monotone PrefOK Emit")}, p, 8,
		mpBuild, func(j *Job, r *proto.Result) { mpJudge(c, j, r) }) {
		return
	}
	if !c.Thorough() {
		// a seeded sample of the two-event histories (create then delete, delete then create ...); thorough has them all
		if !c.streamRun("trees_two_events_sampled", tlc.Run{Module: "ModPath", Workers: 1, Timeout: 20 * time.Minute, Simulate: "num=2500", Depth: 12, Seed: c.Seed,
			Cfg: cfg(2, "Emit")}, p, 8, mpBuild, func(j *Job, r *proto.Result) { mpJudge(c, j, r) }) {
			return
		}
	}
	if c.Thorough() {
		if !c.streamRun("trees_two_events", tlc.Run{Module: "ModPath", Workers: 8, Timeout: 60 * time.Minute, Cfg: cfg(2, "Emit")}, p, 8,
			mpBuild, func(j *Job, r *proto.Result) { mpJudge(c, j, r) }) {
			return
		}
	}
	c.Rep.Exhaustive = true
	c.poolStats(p)
	if surveyMode {
		sv.dump()
	}
}
