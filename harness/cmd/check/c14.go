package main

import (
	"encoding/json"
	"fmt"
	"hash/fnv"
	"os"
	"sort"
	"strings"
	"verifharness/internal/pool"

	"verifharness/internal/proto"
)

func init() { registry["C14"] = checkC14 }

// For completion every declaration gets a unique name derived from TLC's declaration id, and every occurrence is
// spelled with the name of the declaration TLC binds it to (globals: "pg" + their model name). The renderer thus
// needs no scoping knowledge; shadowing disappears, visibility (which is what completion is about) is unchanged.
func c14Name(id int) string     { return c14NameP("p", id) }
func c14Global(n string) string { return c14GlobalP("p", n) }

// (with another leading word: names that begin with a word the completion also knows as keyword or snippet)
func c14NameP(pre string, id int) string     { return fmt.Sprintf("%s%c%d", pre, 'a'+rune(id%3), id) }
func c14GlobalP(pre string, n string) string { return pre + "g" + n }

// c14Prefixes: the leading words of the generated names; one is chosen per program.
var c14Prefixes = []string{"p", "p", "p", "do", "if", "for", "while", "fun", "el", "re"}

func c14Rename(tc *scCase) []scItem { return c14RenameP(tc, "p") }

func c14RenameP(tc *scCase, pre string) []scItem {
	items := append([]scItem{}, tc.Items...)
	nm := func(n string, b int) string {
		if b > 0 {
			return c14NameP(pre, b)
		}
		return c14GlobalP(pre, n)
	}
	for i := range items {
		it := &items[i]
		switch it.K {
		case "local", "fornum", "forin":
			if it.U != "-" && it.U != "" {
				it.U = nm(it.U, it.B)
			}
			it.N = c14NameP(pre, it.ID)
		case "local2":
			it.U = nm(it.U, it.B)
			it.N = c14NameP(pre, it.ID)
			it.M = c14NameP(pre, it.Mid)
		case "require":
			it.N = c14NameP(pre, it.ID)
		case "use", "while", "if", "elseif", "until", "ret":
			it.U = nm(it.U, it.B)
		case "assign":
			if it.U != "-" && it.U != "" {
				it.U = nm(it.U, it.B)
			}
			it.N = nm(it.N, it.Nb)
		case "assign2":
			it.U = nm(it.U, it.B)
			it.N = nm(it.N, it.Nb)
			it.M = nm(it.M, it.Mb)
		case "lfunc", "lefunc":
			it.N = c14NameP(pre, it.ID)
			it.P = c14NameP(pre, it.Pid)
		case "gfunc":
			it.N = nm(it.N, it.Nb)
			it.P = c14NameP(pre, it.Pid)
		case "guse":
			it.U = nm(it.U, 0)
		case "iassign":
			it.T = nm(it.T, it.Tb)
			it.U = nm(it.U, it.B)
		case "cfunc", "cchain":
			it.P = c14NameP(pre, it.Pid)
		case "muse":
			it.T = nm(it.T, it.Tb)
		case "meth":
			it.T = nm(it.T, it.Tb)
			it.P = c14NameP(pre, it.Pid)
		}
		it.Alt, it.Altn, it.Altt = nil, nil, nil
	}
	return items
}

type c14Cursor struct {
	file    int
	line    int
	col     int
	expr    bool // the prefix replaces an identifier inside an expression of statement `item`
	item    int
	vis     []int
	pend    []int
	stepP   int // completion with prefix "p"
	stepP2  int // completion with a two-letter prefix
	prefix2 string
}

type c14Data struct {
	pre   string // leading word of the generated names
	tc    *scCase
	items []scItem
	r     *scRender
	cur   []c14Cursor
}

func compParams(file string, line, col int) json.RawMessage {
	return json.RawMessage(fmt.Sprintf(`{"textDocument":{"uri":"file://$ROOT/%s"},"position":{"line":%d,"character":%d},"context":{"triggerKind":1}}`, file, line, col))
}

func changeStep(file string, ver, sl, sc, el, ec int, text string) proto.Step {
	return proto.Step{M: "textDocument/didChange", N: true, P: json.RawMessage(fmt.Sprintf(
		`{"textDocument":{"uri":"file://$ROOT/%s","version":%d},"contentChanges":[{"range":{"start":{"line":%d,"character":%d},"end":{"line":%d,"character":%d}},"text":%s}]}`,
		file, ver, sl, sc, el, ec, jstr(text)))}
}

func c14Build(seed int64) func(id int, raw json.RawMessage) *Job {
	return func(id int, raw json.RawMessage) *Job {
		var tc scCase
		if json.Unmarshal(raw, &tc) != nil {
			return nil
		}
		pre := c14Prefixes[int(hash64(string(raw), scSeed)>>23)%len(c14Prefixes)]
		np := len(pre)
		items := c14RenameP(&tc, pre)
		mode := scModeOf(raw, scSeed)
		r := scRenderMode(items, mode)
		pc := &proto.Case{ID: id, Files: r.files(), Init: json.RawMessage(allOnLocal)}
		scMaybeProject(pc, r)
		for i, f := range r.Files {
			pc.Steps = append(pc.Steps, openStep(f, r.Text[i]))
		}
		d := &c14Data{pre: pre, tc: &tc, r: r, items: items}
		// candidate cursor points: before each item's line (inside whatever block is open there), and the end of the last file
		// (one-line layout: the same points, the prefix is typed between two statements of the line)
		type pt struct {
			file, line int
			vis        []int
			pend       []int
			col        int
		}
		var pts []pt
		file, line := 0, 0
		for i, it := range items {
			if it.K == "file" {
				file++
				line = 0
				continue
			}
			pts = append(pts, pt{file, line, it.Vis, it.VisPend, r.ItemAt[i][1]})
			line++
		}
		pts = append(pts, pt{file, line, tc.VisEnd, nil, -1})
		h := fnv.New64a()
		h.Write(raw)
		hv := h.Sum64() ^ uint64(seed)*0x9e3779b97f4a7c15
		pick := map[int]bool{len(pts) - 1: true, int(hv % uint64(len(pts))): true, int((hv >> 13) % uint64(len(pts))): true, int((hv >> 29) % uint64(len(pts))): true}
		var idx []int
		for k := range pick {
			idx = append(idx, k)
		}
		sort.Ints(idx)
		ver := 2
		// a leading word that is a keyword cannot be typed on its own without changing what the text is (`while` alone is the
		// keyword): such programs are only asked inside their existing identifiers, below
		kw := pre == "do" || pre == "if" || pre == "for" || pre == "while"
		for _, k := range idx {
			if kw {
				break
			}
			p := pts[k]
			if tcItemIsCloser(items, p.file, p.line) {
				// closers were appended by TLC after the last real statement: the stack there is not recorded per closer
				continue
			}
			f := r.Files[p.file]
			cu := c14Cursor{file: p.file, line: p.line, vis: p.vis, pend: p.pend}
			cu.prefix2 = pre + string(rune('a'+int(hv>>7)%3))
			if mode == 1 {
				// one-line layout: an editor types "p " in front of the statement (or " p" after the last one), asks,
				// types one more letter, asks, then removes what it typed
				ln, col, ins := 0, p.col, pre+" "
				if col < 0 {
					ll := 0
					if len(r.Lines[p.file]) > 0 {
						ll = len(r.Lines[p.file][0])
					}
					col, ins = ll+1, " "+pre
					pc.Steps = append(pc.Steps, changeStep(f, ver, ln, col-1, ln, col-1, ins))
				} else {
					pc.Steps = append(pc.Steps, changeStep(f, ver, ln, col, ln, col, ins))
				}
				ver++
				cu.line, cu.col = ln, col
				pc.Steps = append(pc.Steps, proto.Step{M: "textDocument/completion", P: compParams(f, ln, col+np)})
				cu.stepP = len(pc.Steps) - 1
				pc.Steps = append(pc.Steps, changeStep(f, ver, ln, col+np, ln, col+np, cu.prefix2[np:]))
				ver++
				pc.Steps = append(pc.Steps, proto.Step{M: "textDocument/completion", P: compParams(f, ln, col+np+1)})
				cu.stepP2 = len(pc.Steps) - 1
				if p.col < 0 {
					pc.Steps = append(pc.Steps, changeStep(f, ver, ln, col-1, ln, col+np+1, ""))
				} else {
					pc.Steps = append(pc.Steps, changeStep(f, ver, ln, col, ln, col+np+2, ""))
				}
				ver++
				d.cur = append(d.cur, cu)
				continue
			}
			// an editor types "p" on a fresh line, asks, types one more letter, asks, then the line is removed
			pc.Steps = append(pc.Steps, changeStep(f, ver, p.line, 0, p.line, 0, pre+"\n"))
			ver++
			pc.Steps = append(pc.Steps, proto.Step{M: "textDocument/completion", P: compParams(f, p.line, np)})
			cu.stepP = len(pc.Steps) - 1
			pc.Steps = append(pc.Steps, changeStep(f, ver, p.line, np, p.line, np, cu.prefix2[np:]))
			ver++
			pc.Steps = append(pc.Steps, proto.Step{M: "textDocument/completion", P: compParams(f, p.line, np+1)})
			cu.stepP2 = len(pc.Steps) - 1
			pc.Steps = append(pc.Steps, changeStep(f, ver, p.line, 0, p.line+1, 0, ""))
			ver++
			d.cur = append(d.cur, cu)
		}
		// expression positions: the name read by a statement (initialiser, condition, bound, until-condition, argument,
		// return value) is overtyped with the prefix; what is visible there is the statement's own vis set
		var uses []int
		for k := range r.Occ {
			if o := &r.Occ[k]; o.Role == "use" && o.Slot == "u" && items[o.Item].hasVis {
				uses = append(uses, k)
			}
		}
		if len(uses) > 0 {
			picks := map[int]bool{uses[int(hv>>17)%len(uses)]: true, uses[int(hv>>41)%len(uses)]: true}
			var ks []int
			for k := range picks {
				ks = append(ks, k)
			}
			sort.Ints(ks)
			for _, k := range ks {
				o := &r.Occ[k]
				f := r.Files[o.File]
				it := items[o.Item]
				cu := c14Cursor{file: o.File, line: o.Line, col: o.Col, vis: it.Vis, pend: it.VisPend, expr: true, item: o.Item}
				if it.hasVisX {
					cu.vis = it.VisX
				}
				if kw {
					// the cursor stands inside the existing identifier, behind its leading word and behind the next letter
					cu.prefix2 = o.Name[:np+1]
					pc.Steps = append(pc.Steps, proto.Step{M: "textDocument/completion", P: compParams(f, o.Line, o.Col+np)})
					cu.stepP = len(pc.Steps) - 1
					pc.Steps = append(pc.Steps, proto.Step{M: "textDocument/completion", P: compParams(f, o.Line, o.Col+np+1)})
					cu.stepP2 = len(pc.Steps) - 1
					d.cur = append(d.cur, cu)
					continue
				}
				cu.prefix2 = pre + string(rune('a'+int(hv>>7)%3))
				pc.Steps = append(pc.Steps, changeStep(f, ver, o.Line, o.Col, o.Line, o.Col+len(o.Name), pre))
				ver++
				pc.Steps = append(pc.Steps, proto.Step{M: "textDocument/completion", P: compParams(f, o.Line, o.Col+np)})
				cu.stepP = len(pc.Steps) - 1
				pc.Steps = append(pc.Steps, changeStep(f, ver, o.Line, o.Col+np, o.Line, o.Col+np, cu.prefix2[np:]))
				ver++
				pc.Steps = append(pc.Steps, proto.Step{M: "textDocument/completion", P: compParams(f, o.Line, o.Col+np+1)})
				cu.stepP2 = len(pc.Steps) - 1
				pc.Steps = append(pc.Steps, changeStep(f, ver, o.Line, o.Col, o.Line, o.Col+np+1, o.Name))
				ver++
				d.cur = append(d.cur, cu)
			}
		}
		return &Job{PC: pc, Data: d}
	}
}

// tcItemIsCloser reports whether the statement on (file,line) is one of the closers TLC appended (they carry no vis).
func tcItemIsCloser(items []scItem, file, line int) bool {
	f, l := 0, 0
	for _, it := range items {
		if it.K == "file" {
			f++
			l = 0
			continue
		}
		if f == file && l == line {
			return it.Vis == nil && (it.K == "end" || it.K == "untilc") && !it.hasVis
		}
		l++
	}
	return false
}

func compLabels(reply json.RawMessage) ([]string, bool) {
	if len(reply) == 0 || string(reply) == "null" {
		return nil, true
	}
	var cl struct {
		Items []struct {
			Label string `json:"label"`
		} `json:"items"`
	}
	if err := json.Unmarshal(reply, &cl); err == nil && cl.Items != nil {
		var r []string
		for _, i := range cl.Items {
			r = append(r, i.Label)
		}
		return r, true
	}
	var arr []struct {
		Label string `json:"label"`
	}
	if err := json.Unmarshal(reply, &arr); err == nil {
		var r []string
		for _, i := range arr {
			r = append(r, i.Label)
		}
		return r, true
	}
	return nil, false
}

func c14Judge(c *Ctx, j *Job, res *proto.Result) {
	d := j.Data.(*c14Data)
	c.Rep.Eval(string(j.Raw))
	if res.Crash != "" || res.Hang {
		c.Rep.Violation(j.Raw, fmt.Sprintf("server died or hung (crash=%q hang=%v at step %d) on program:\n%s", res.Crash, res.Hang, res.AtStep, progText(d.r)))
		return
	}
	allLocal := map[string]bool{}
	for id := 1; id <= d.tc.NDecl; id++ {
		allLocal[c14NameP(d.pre, id)] = true
	}
	// global definitions are numbered too, but are spelled pg<name>
	globals := map[string]bool{}
	for _, g := range d.tc.GDefs {
		globals[c14GlobalP(d.pre, g.N)] = true
		delete(allLocal, c14NameP(d.pre, g.ID))
	}
	for _, cu := range d.cur {
		for k, step := range []int{cu.stepP, cu.stepP2} {
			prefix := d.pre
			if k == 1 {
				prefix = cu.prefix2
			}
			labels, ok := compLabels(res.Steps[step].Reply)
			if !ok || len(res.Steps[step].Err) > 0 {
				c.Rep.Violation(j.Raw, fmt.Sprintf("completion request failed: %s %s", res.Steps[step].Reply, res.Steps[step].Err))
				return
			}
			got := map[string]bool{}
			for _, l := range labels {
				got[l] = true
			}
			vis := map[string]bool{}
			for _, id := range cu.vis {
				vis[c14NameP(d.pre, id)] = true
			}
			var prob []string
			for n := range vis {
				if strings.HasPrefix(n, prefix) && !got[n] {
					prob = append(prob, "missing visible local "+n)
				}
			}
			for g := range globals {
				if strings.HasPrefix(g, prefix) && !got[g] {
					prob = append(prob, "missing workspace global "+g)
				}
			}
			pend := map[string]bool{}
			for _, id := range cu.pend {
				pend[c14NameP(d.pre, id)] = true
			}
			for l := range got {
				if allLocal[l] && !vis[l] {
					if pend[l] {
						c.Rep.Deviation("Dev_InitialiserSeesNewLocal", fmt.Sprintf("completion inside the function that initialises local %s offers %s itself\n%s", l, l, progText(d.r)), j.Raw)
						continue
					}
					if cu.expr {
						// the statement's own new declaration offered inside its initialiser / bounds (known findings)
						it := d.items[cu.item]
						own := l == c14NameP(d.pre, it.ID) || (it.K == "local2" && l == c14NameP(d.pre, it.Mid))
						if own && (it.K == "local" || it.K == "local2") {
							c.Rep.Deviation("Dev_InitialiserSeesNewLocal", fmt.Sprintf("completion inside the initialiser of local %s offers %s itself\n%s", l, l, progText(d.r)), j.Raw)
							continue
						}
						if own && (it.K == "fornum" || it.K == "forin") {
							c.Rep.Deviation("Dev_ForBoundSeesLoopVar", fmt.Sprintf("completion inside the bounds of the loop over %s offers %s itself\n%s", l, l, progText(d.r)), j.Raw)
							continue
						}
					}
					prob = append(prob, "offers local "+l+" which is not in scope at the cursor")
				}
			}
			if len(prob) == 0 {
				continue
			}
			sort.Strings(prob)
			desc := fmt.Sprintf("completion of prefix %q typed at statement %d (column %d%s) of %s: %s (labels: %s)\n%s", prefix, cu.line, cu.col, map[bool]string{true: ", over the name an expression reads", false: ""}[cu.expr], d.r.Files[cu.file], strings.Join(prob, "; "), strings.Join(labels, ","), progText(d.r))
			if surveyMode {
				for _, p := range prob {
					f := strings.Fields(p)
					sv.add(strings.Join(f[:2], " "), desc)
				}
				continue
			}
			c.Rep.Violation(j.Raw, desc)
			return
		}
	}
}

func checkC14(c *Ctx) {
	c.Rep.Rule = "Scope.tla programs with TLC's visible-declaration set at every program point; every declaration is spelled with a unique name derived from its id; in an opened document an editor-like didChange types a prefix on a new line at up to four seeded program points (always including the end of the file) and over up to two names read inside expressions (initialisers, conditions, loop bounds, until-conditions), completion is requested, and the labels are compared with the visible set: every visible local and every defined global with the prefix must be offered, no local that is not visible may be offered"
	c.Rep.Assumptions = []string{
		"the matcher is fuzzy, so the prefix half of the statement is asserted as containment; the exclusion half is asserted for scope",
		"keywords, snippets and built-ins among the labels are ignored (they are not generated names)",
	}
	scLight = true
	scSeed = c.Seed
	if c.Replay != "" {
		raw, err := loadReplayCase(c.Replay)
		if err != nil {
			c.Rep.Fatal(err.Error())
			return
		}
		if projReplay(c, raw, "completion") {
			return
		}
		jb := c14Build(c.Seed)(1, raw)
		jb.Raw = raw
		p := c.NewPool(1)
		p.RunSlice([][]*proto.Case{{jb.PC}}, func(_ *proto.Case, r *proto.Result) { c14Judge(c, jb, r) })
		c.Rep.Sample(map[string]interface{}{"replayed": raw}, 1)
		return
	}
	p := c.NewPool(0)
	if os.Getenv("VERIF_ONLY") != "rounds" { // (development aid)
		scopeRuns(c, p, c14Build(c.Seed), func(j *Job, r *proto.Result) { c14Judge(c, j, r) })
	}
	c14Rounds(c, p)
	// Project.tla: workspaces analysed as a project (entry file + what it requires), both modes
	projectRuns(c, p, 0, "completion")
	c.poolStats(p)
	if surveyMode {
		sv.dump()
	}
}

// c14Rounds: a long editing session on one document -- 24 rounds of "type a new local, save" -- followed by one more
// edit that is not saved; completion of the common prefix must then offer every local typed so far, the unsaved one
// included (the analyses of edited texts are cached and evicted; what is offered must not depend on that).
func c14Rounds(c *Ctx, p *pool.Pool) {
	text := "local locvfirst = 0\n"
	pc := &proto.Case{ID: 1, Files: map[string]string{"r.lua": text}, Init: json.RawMessage(allOnLocal)}
	pc.Steps = append(pc.Steps, openStep("r.lua", text))
	want := []string{"locvfirst"}
	ver := 2
	for i := 0; i < 24; i++ {
		nl := strings.Count(text, "\n")
		add := fmt.Sprintf("local locv%02d = %d\n", i, i)
		pc.Steps = append(pc.Steps, changeStep("r.lua", ver, nl, 0, nl, 0, add))
		ver++
		text += add
		want = append(want, fmt.Sprintf("locv%02d", i))
		pc.Steps = append(pc.Steps, proto.Step{M: "fs.write", Path: "r.lua", Text: text},
			proto.Step{M: "textDocument/didSave", N: true, P: json.RawMessage(fmt.Sprintf(`{"textDocument":{"uri":"file://$ROOT/r.lua"},"text":%s}`, jstr(text)))})
		if i%2 == 1 {
			// every second round the document is also closed and opened again
			pc.Steps = append(pc.Steps, proto.Step{M: "textDocument/didClose", N: true, P: json.RawMessage(`{"textDocument":{"uri":"file://$ROOT/r.lua"}}`)}, openStep("r.lua", text))
			ver = 2
		}
	}
	nl := strings.Count(text, "\n")
	pc.Steps = append(pc.Steps, changeStep("r.lua", ver, nl, 0, nl, 0, "local locvnew = 1\nlocv"))
	want = append(want, "locvnew")
	pc.Steps = append(pc.Steps, proto.Step{M: "textDocument/completion", P: compParams("r.lua", nl+1, 4)})
	raw, _ := json.Marshal(map[string]interface{}{"fam": "rounds", "n": 24})
	p.RunSlice([][]*proto.Case{{pc}}, func(_ *proto.Case, res *proto.Result) {
		c.Rep.Eval("rounds")
		if res.Crash != "" || res.Hang {
			c.Rep.Violation(raw, fmt.Sprintf("24 edit-and-save rounds on one document: server died or hung (crash=%q)", res.Crash))
			return
		}
		labels, _ := compLabels(res.Steps[len(res.Steps)-1].Reply)
		got := map[string]bool{}
		for _, l := range labels {
			got[l] = true
		}
		var miss []string
		for _, w := range want {
			if !got[w] {
				miss = append(miss, w)
			}
		}
		if len(miss) > 0 {
			c.Rep.Violation(raw, fmt.Sprintf("after 24 edit-and-save rounds (every second one with close and reopen) and one more unsaved edit, completion of 'locv' at the end of the document does not offer the visible locals %v", miss))
		}
	})
	c.Rep.Traces++
}
