package main

import (
	"encoding/json"
	"fmt"
	"hash/fnv"
	"sort"
	"strings"
	"sync"

	"verifharness/internal/proto"
)

func init() { registry["C11"] = checkC11 }

type c11Data struct {
	tc    *scCase
	r     *scRender
	ren   []c05Query // rename queries (occ, step)
	defs  []c05Query // definition at every occurrence (baseline for structure preservation)
	newNm string
}

type c11Follow struct {
	parent  *Job
	occ     int
	edited  map[string]string
	baseDef []string // abstract definition answers of the original, per occurrence
	baseDg  []string // original diagnostics (type@pos)
	want    []string
}

func renameParams(file string, line, col int, nn string) json.RawMessage {
	return json.RawMessage(fmt.Sprintf(`{"textDocument":{"uri":"file://$ROOT/%s"},"position":{"line":%d,"character":%d},"newName":%s}`, file, line, col, jstr(nn)))
}

func c11Build(seed int64) func(id int, raw json.RawMessage) *Job {
	return func(id int, raw json.RawMessage) *Job {
		var tc scCase
		if json.Unmarshal(raw, &tc) != nil {
			return nil
		}
		scMarkAttr(tc.Items)
		r := scRenderMode(tc.Items, scModeOf(raw, scSeed))
		if len(r.Occ) == 0 {
			return nil
		}
		pc := &proto.Case{ID: id, Files: r.files(), Init: json.RawMessage(allOnLocal)}
		scMaybeProject(pc, r)
		for i, f := range r.Files {
			pc.Steps = append(pc.Steps, openStep(f, r.Text[i]))
		}
		d := &c11Data{tc: &tc, r: r, newNm: "z"}
		for i, o := range r.Occ {
			pc.Steps = append(pc.Steps, proto.Step{M: "textDocument/definition", P: posParams(r.Files[o.File], o.Line, o.Col)})
			d.defs = append(d.defs, c05Query{i, false, len(pc.Steps) - 1})
		}
		// pick up to two occurrences by a seeded hash of the program
		h := fnv.New64a()
		h.Write(raw)
		hv := h.Sum64() ^ uint64(seed)*0x9e3779b97f4a7c15
		picks := map[int]bool{int(hv % uint64(len(r.Occ))): true, int((hv >> 17) % uint64(len(r.Occ))): true}
		var idx []int
		for k := range picks {
			idx = append(idx, k)
		}
		sort.Ints(idx)
		for _, k := range idx {
			o := r.Occ[k]
			pc.Steps = append(pc.Steps, proto.Step{M: "textDocument/rename", P: renameParams(r.Files[o.File], o.Line, o.Col, d.newNm)})
			d.ren = append(d.ren, c05Query{k, false, len(pc.Steps) - 1})
		}
		return &Job{PC: pc, Data: d}
	}
}

type rawEdit struct {
	Range struct {
		Start struct{ Line, Character int } `json:"start"`
		End   struct{ Line, Character int } `json:"end"`
	} `json:"range"`
	NewText string `json:"newText"`
}

func diagKeys(view map[string][]diag) []string {
	var ks []string
	for f, ds := range view {
		for _, x := range ds {
			ks = append(ks, fmt.Sprintf("%d@%s:%d:%d-%d:%d", x.Type, f, x.SL, x.SC, x.EL, x.EC))
		}
	}
	sort.Strings(ks)
	return ks
}

func checkC11(c *Ctx) {
	c.Rep.Rule = "Scope.tla programs (exhaustive core + simulated); on a fresh real server rename to a fresh one-letter name is requested at two seeded occurrences per program; the WorkspaceEdit must be non-overlapping, each edit must cover one identifier spelled with the old name, the edited set must be the occurrence class of TLC's bindings, and the edited workspace, analysed by another fresh server, must give the same diagnostics and the same definition answers as the original (names have equal length, so positions are comparable)"
	c.Rep.Assumptions = []string{
		"new name 'z' is fresh (not in Names, not a keyword/builtin) and as long as the old one",
		"class expectation and as-built predictions are those of C06; generated domain excludes Avoid = {hide, selfw, gshallow}",
	}
	scAvoid = `{"hide","selfw","gshallow"}`
	// files are named like the variables (a.lua, b.lua) and may require each other and return a value
	scModNames = []string{"a", "b"}
	scKinds = `{"local","local2","use","assign","assign2","do","while","if","repeat","fornum","forin","lfunc","lefunc","gfunc","meth","cfunc","file","ret","require"}`
	scLight = true
	p := c.NewPool(12)
	p2 := c.NewPool(4)
	p2.BaseDir += "2"
	follow := make(chan []*proto.Case, 1024)
	var fmu sync.Mutex
	fmap := map[int]*c11Follow{}
	fid := 0
	var wg sync.WaitGroup
	wg.Add(1)
	go func() {
		defer wg.Done()
		p2.Run(follow, func(pc *proto.Case, res *proto.Result) {
			fmu.Lock()
			fo := fmap[pc.ID]
			delete(fmap, pc.ID)
			fmu.Unlock()
			if fo == nil {
				return
			}
			d := fo.parent.Data.(*c11Data)
			o := &d.r.Occ[fo.occ]
			if res.Crash != "" || res.Hang {
				c.Rep.Violation(fo.parent.Raw, fmt.Sprintf("server died or hung on the renamed program (crash=%q)\n%s", res.Crash, progText(d.r)))
				return
			}
			view := map[string][]diag{}
			foldDiags(res.Root, view, res.InitNtfs)
			for i := range res.Steps {
				foldDiags(res.Root, view, res.Steps[i].Ntfs)
			}
			dg := diagKeys(view)
			var prob []string
			if strings.Join(dg, " ") != strings.Join(fo.baseDg, " ") {
				prob = append(prob, fmt.Sprintf("diagnostics changed: before {%s} after {%s}", strings.Join(fo.baseDg, " "), strings.Join(dg, " ")))
			}
			nf := len(d.r.Files)
			for k := range d.r.Occ {
				// the renamed program has the same declarations and bindings: judge its definition answers against
				// TLC's bindings exactly as C05 does (positions are unchanged because the names have equal length)
				locs, _ := projLocs(res.Root, res.Steps[nf+k].Reply)
				var got []string
				for _, l := range locs {
					got = append(got, d.r.absLoc(l))
				}
				oo := d.r.Occ[k]
				if ok, dev, want, _ := judgeDef(d.tc, &oo, got); !ok && dev == "" {
					prob = append(prob, fmt.Sprintf("after the rename, definition at %s answers %v; the bindings require %v", occPos(d.r, &oo), got, want))
				}
			}
			if len(prob) > 0 {
				var sb strings.Builder
				for _, f := range d.r.Files {
					sb.WriteString("-- " + f + " (after rename)\n" + fo.edited[f])
				}
				desc := fmt.Sprintf("renaming %q at %s to %q does not preserve the binding structure: %s\n%s%s", o.Name, occPos(d.r, o), d.newNm, strings.Join(prob, "; "), progText(d.r), sb.String())
				if surveyMode {
					sv.add("structure "+d.tc.Items[o.Item].K+"/"+o.Role, desc)
					return
				}
				c.Rep.Violation(fo.parent.Raw, desc)
			}
		})
	}()
	judge := func(j *Job, res *proto.Result) {
		d := j.Data.(*c11Data)
		c.Rep.Eval(string(j.Raw))
		if res.Crash != "" || res.Hang {
			c.Rep.Violation(j.Raw, fmt.Sprintf("server died or hung (crash=%q hang=%v) on program:\n%s", res.Crash, res.Hang, progText(d.r)))
			return
		}
		view := map[string][]diag{}
		foldDiags(res.Root, view, res.InitNtfs)
		for i := range res.Steps {
			foldDiags(res.Root, view, res.Steps[i].Ntfs)
		}
		baseDg := diagKeys(view)
		baseDef := make([]string, len(d.r.Occ))
		for _, q := range d.defs {
			locs, _ := projLocs(res.Root, res.Steps[q.step].Reply)
			var got []string
			for _, l := range locs {
				got = append(got, fmt.Sprintf("%s:%d:%d", l.File, l.SL, l.SC))
			}
			baseDef[q.occ] = strings.Join(got, ",")
		}
		for _, q := range d.ren {
			o := &d.r.Occ[q.occ]
			sr := &res.Steps[q.step]
			var we struct {
				Changes map[string][]rawEdit `json:"changes"`
			}
			if len(sr.Reply) > 0 && string(sr.Reply) != "null" {
				if err := json.Unmarshal(sr.Reply, &we); err != nil {
					c.Rep.Violation(j.Raw, "rename reply is not a WorkspaceEdit: "+string(sr.Reply))
					return
				}
			}
			var got []string
			bad := ""
			edited := map[string]string{}
			for i, f := range d.r.Files {
				edited[f] = d.r.Text[i]
			}
			for uri, eds := range we.Changes {
				f := strings.TrimPrefix(strings.TrimPrefix(uri, "file://"), res.Root+"/")
				fi := -1
				for i, fn := range d.r.Files {
					if fn == f {
						fi = i
					}
				}
				if fi < 0 {
					bad = "edit in unknown file " + f
					continue
				}
				lines := append([]string{}, d.r.Lines[fi]...)
				// apply right-to-left per line; detect overlap
				sort.Slice(eds, func(a, b int) bool {
					if eds[a].Range.Start.Line != eds[b].Range.Start.Line {
						return eds[a].Range.Start.Line < eds[b].Range.Start.Line
					}
					return eds[a].Range.Start.Character < eds[b].Range.Start.Character
				})
				for k := len(eds) - 1; k >= 0; k-- {
					e := eds[k]
					sl, sc, el, ec := e.Range.Start.Line, e.Range.Start.Character, e.Range.End.Line, e.Range.End.Character
					got = append(got, fmt.Sprintf("%s:%d:%d", f, sl, sc))
					if k > 0 {
						pe := eds[k-1]
						if pe.Range.End.Line > sl || (pe.Range.End.Line == sl && pe.Range.End.Character > sc) {
							bad = fmt.Sprintf("edits overlap at %s:%d:%d", f, sl, sc)
						}
					}
					if sl != el || sl >= len(lines) || sc > ec || ec > len(lines[sl]) {
						bad = fmt.Sprintf("edit range %d:%d-%d:%d outside the text", sl, sc, el, ec)
						continue
					}
					if lines[sl][sc:ec] != o.Name {
						bad = fmt.Sprintf("edit at %s:%d:%d covers %q, not the identifier %q", f, sl, sc, lines[sl][sc:ec], o.Name)
					}
					if e.NewText != d.newNm {
						bad = fmt.Sprintf("edit inserts %q, not the new name", e.NewText)
					}
					lines[sl] = lines[sl][:sc] + e.NewText + lines[sl][ec:]
				}
				edited[f] = strings.Join(lines, "\n") + "\n"
			}
			sort.Strings(got)
			gotU := uniq(got)
			if len(gotU) != len(got) && bad == "" {
				bad = "the same range is edited twice"
			}
			want, awant, devs, unspec := classExpect(d.tc, d.r, o)
			if unspec {
				continue
			}
			it := d.tc.Items[o.Item]
			desc := fmt.Sprintf("rename of %q (%s of item %d %s/%s) at %s edits {%s}; the occurrences Lua binds to the same variable are {%s} %s\n%s",
				o.Name, o.Role, o.Item, it.K, it.Fl, occPos(d.r, o), strings.Join(gotU, " "), strings.Join(want, " "), bad, progText(d.r))
			if bad != "" {
				if surveyMode {
					sv.add("bad "+bad[:10], desc)
					continue
				}
				c.Rep.Violation(j.Raw, desc)
				return
			}
			if strings.Join(gotU, " ") != strings.Join(want, " ") {
				if len(devs) > 0 && strings.Join(gotU, " ") == strings.Join(awant, " ") {
					for dv := range devs {
						c.Rep.Deviation(dv, desc, j.Raw)
					}
					continue
				}
				if looseMatch(gotU, want, scLoose) || looseMatch(gotU, awant, scLoose) {
					c.Rep.Deviation("Dev_GlobalNamedLikeUnresolvedRequire", desc, j.Raw)
					for dv := range devs {
						c.Rep.Deviation(dv, desc, j.Raw)
					}
					continue
				}
				if surveyMode {
					missing, extra := diffSets(want, gotU)
					sv.add(fmt.Sprintf("set %s/%s role=%s class=%s missing=%d extra=%d devs=%v", it.K, it.Fl, o.Role, classKey(o)[:1], len(missing), len(extra), devs), desc+"\nas-built {"+strings.Join(awant, " ")+"}")
					continue
				}
				c.Rep.Violation(j.Raw, desc)
				return
			}
			// structure preservation: analyse the edited workspace with a fresh server
			fmu.Lock()
			fid++
			id := fid
			fo := &c11Follow{parent: j, occ: q.occ, edited: edited, baseDef: baseDef, baseDg: baseDg, want: want}
			fmap[id] = fo
			fmu.Unlock()
			pc := &proto.Case{ID: id, Files: edited, Init: json.RawMessage(allOnLocal)}
			if cfg, ok := j.PC.Files["luahelper.json"]; ok {
				// the renamed workspace keeps the configuration of the original (project mode)
				pc.Files = map[string]string{"luahelper.json": cfg}
				for k, v := range edited {
					pc.Files[k] = v
				}
			}
			for _, f := range d.r.Files {
				pc.Steps = append(pc.Steps, openStep(f, edited[f]))
			}
			for _, oo := range d.r.Occ {
				pc.Steps = append(pc.Steps, proto.Step{M: "textDocument/definition", P: posParams(d.r.Files[oo.File], oo.Line, oo.Col)})
			}
			follow <- []*proto.Case{pc}
		}
	}
	if c.Replay != "" {
		raw, err := loadReplayCase(c.Replay)
		if err != nil {
			c.Rep.Fatal(err.Error())
		} else if projReplay(c, raw, "rename") {
		} else {
			jb := c11Build(c.Seed)(1, raw)
			if jb != nil {
				jb.Raw = raw
				p1 := c.NewPool(1)
				p1.RunSlice([][]*proto.Case{{jb.PC}}, func(_ *proto.Case, r *proto.Result) { judge(jb, r) })
			}
			c.Rep.Sample(map[string]interface{}{"replayed": raw}, 1)
		}
		close(follow)
		wg.Wait()
		return
	}
	scopeRuns(c, p, c11Build(c.Seed), judge)
	close(follow)
	wg.Wait()
	wideGlobal(c, p, "C11", func(want, refs1, refs2, ren []string, defs map[string][]string, raw json.RawMessage) {
		if strings.Join(ren, " ") != strings.Join(want, " ") {
			c.Rep.Violation(raw, fmt.Sprintf("a global defined in def.lua and used in 27 further files (one of them created after start-up): the rename edit has %d edits {%s}, the occurrences are the %d {%s}", len(ren), clip(strings.Join(ren, " "), 400), len(want), clip(strings.Join(want, " "), 400)))
		}
	})
	// Project.tla: workspaces analysed as a project (entry file + what it requires), both modes
	projectRuns(c, p, 0, "rename")
	c.poolStats(p)
	c.Rep.Extra["reanalysed_after_rename"] = p2.Cases
	if surveyMode {
		sv.dump()
	}
}
