package main

import (
	"encoding/json"
	"fmt"
	"hash/fnv"
	"sort"
	"strings"
	"time"

	"verifharness/internal/proto"
	"verifharness/internal/tlc"
)

func init() { registry["C03"] = checkC03 }

// concrete spellings of the token kinds of LuaGrammar.tla (the renderer rotates through them)
var tokSpell = map[string][]string{
	"name":   {"a", "b", "x1", "_y", "foo", "self", "A_9"},
	"number": {"0xFFFFFFFFFFFFFFFFULL", "0x8000000000000000LL", "0xcbf29ce484222325ull", "18446744073709551615ULL", "1", "0x1F", "1.5", "1e3", "0x.8p1", "3LL", ".5", "5.", "0xA.8p-2", "7ULL", "9e+2", "12ll", "0X1p4", "1E-2", "1e400", "1e-400", "0x1p5000"},
	"string": {`"s"`, `'s'`, `[[s]]`, `[==[s]==]`, `"a\nb"`, `'\x41'`, `"\u{48}"`, "\"\\z  x\"", `"\065"`, `'\''`, `"\\"`, "[[\nml]]", `"\a\b\f\r\t\v"`, "\"l1\\\nl2\"", "\"l1\\\r\nl2\"", "'l1\\\n\rl2'", "\"l1\\\rl2\""},
	"unop":   {"not", "#"},
	"binop":  {"+", "*", "/", "//", "%", "^", "..", "==", "~=", "<", "<=", ">", ">=", "and", "or", "&", "|", "<<", ">>"},
	"attr":   {"<const>", "<close>"},
}

var tokSeps = []string{" ", "\n", "\t", "\r\n", " --[[c]] ", " -- c\n", " -- c\r", " -- c\r\n", "  ", "\n\n", " --[==[ x\ny ]==] ", "\r"}

var tokAlphabet = []string{"name", "number", "string", "nil", "true", "function", "end", "local", "if", "then", "elseif", "else", "while", "do", "for", "in",
	"repeat", "until", "return", "goto", "::", "=", ",", ";", "(", ")", "{", "}", "[", "]", ".", ":", "binop", "unop", "-", "~"}

func hash64(s string, seed int64) uint64 {
	h := fnv.New64a()
	h.Write([]byte(s))
	return h.Sum64() ^ uint64(seed)*0x9e3779b97f4a7c15
}

// renderToks spells a token-kind sequence; variant selects spellings and separators.
func renderToks(toks []string, variant uint64) string {
	var sb strings.Builder
	for i, t := range toks {
		v := variant + uint64(i)*0x9e37
		sp, ok := tokSpell[t]
		w := t
		if ok {
			w = sp[(v>>3)%uint64(len(sp))]
		}
		if t == "attr" {
			// at most one to-be-closed variable per local statement (a context condition of Lua 5.4): only the first
			// attribute of a chunk may be spelled <close>
			first := true
			for _, u := range toks[:i] {
				if u == "attr" {
					first = false
				}
			}
			if !first {
				w = "<const>"
			}
		}
		if t == "unop" && i == 0 {
			w = "not" // a first line starting with '#' is skipped as a shebang line: not a unary operator there
		}
		if t == "name" && i > 0 && (toks[i-1] == "::" || toks[i-1] == "goto") {
			w = fmt.Sprintf("L%d", i) // labels: unique names (duplicate labels are a context condition, not grammar)
		}
		if i > 0 {
			sb.WriteString(tokSeps[(v>>11)%uint64(len(tokSeps))])
		}
		sb.WriteString(w)
	}
	// the file may end right after the last token, or with a line break / blank
	sb.WriteString([]string{"\n", "", " ", "\r\n"}[(variant>>17)%4])
	return sb.String()
}

type parseRes struct {
	N     int    `json:"n"`
	First []int  `json:"first"`
	Msg   string `json:"msg"`
}

func checkC03(c *Ctx) {
	c.Rep.Rule = "LuaGrammar.tla (an explicit stack machine over 37 token kinds for the Lua 5.3/5.4 statement and expression grammar) is explored breadth-first to MaxTok tokens: the emitted complete chunks are valid by construction and are, as a set, the reference recogniser for the mutants derived from them (single-token deletion, substitution by every kind, adjacent swap, duplication; a mutant no longer than MaxTok is valid iff TLC enumerated it). Four focus frames (parameter list, for-in name list, attributed local name list, function name path) put one list non-terminal into a fixed frame and enumerate it to 11 (13) tokens; their mutants are single-token insertions, deletions, substitutions and swaps inside the frame's hole. Every chunk and mutant is spelled with rotating concrete spellings (numerals incl. hex floats and LL/ULL, all string forms and escapes, every operator) and separators (spaces, tabs, LF/CRLF/CR, short/long comments) and given to the real parser entry (parser.BeginAnalyze); a seeded sample and every disagreement also go through the real server's publishDiagnostics; oracle: type-1 diagnostic present <=> not valid; distinct = distinct token-kind sequences"
	c.Rep.Assumptions = []string{
		"context conditions (break outside a loop, '...' outside a vararg function, undefined/duplicate labels, assignment to <const>) are not grammar: not generated",
		"token spellings and separators are a fixed table in the harness; label names are made unique",
		"parser.BeginAnalyze is the observation point the property itself names as equivalent; a sample is cross-checked against publishDiagnostics",
	}
	n := 7
	if c.Thorough() {
		n = 8
	}
	valid := map[string]bool{}
	var chunks [][]string
	st, err := c.TLC(tlc.Run{Module: "LuaGrammar", Workers: 8, Timeout: 40 * time.Minute, JavaOpts: "-Xmx12g -Xmn256m -XX:ParallelGCThreads=4",
		Cfg: fmt.Sprintf("CONSTANTS\n  MaxTok = %d\n  MaxStack = 14\n  Focus = \"chunk\"\n  DevParen = FALSE\nINIT Init\nNEXT Next\nINVARIANTS Bounded Balanced Emit\nCHECK_DEADLOCK FALSE\n", n)},
		func(j json.RawMessage) {
			var o struct {
				Toks []string `json:"toks"`
			}
			if json.Unmarshal(j, &o) != nil {
				return
			}
			k := strings.Join(o.Toks, " ")
			if !valid[k] {
				valid[k] = true
				chunks = append(chunks, o.Toks)
			}
		})
	if err != nil || st.ExitCode != 0 {
		c.Rep.Fatal(fmt.Sprintf("LuaGrammar.tla run failed (exit %d): %v\n%s", st.ExitCode, err, lastLines(st.Out, 12)))
		return
	}
	// the as-built language under the listed deviation (same machine, DevParen = TRUE)
	validDev := map[string]bool{}
	st2, err := c.TLC(tlc.Run{Module: "LuaGrammar", Workers: 8, Timeout: 40 * time.Minute, JavaOpts: "-Xmx12g -Xmn256m -XX:ParallelGCThreads=4",
		Cfg: fmt.Sprintf("CONSTANTS\n  MaxTok = %d\n  MaxStack = 14\n  Focus = \"chunk\"\n  DevParen = TRUE\nINIT Init\nNEXT Next\nINVARIANTS Bounded Balanced Emit\nCHECK_DEADLOCK FALSE\n", n)},
		func(j json.RawMessage) {
			var o struct {
				Toks []string `json:"toks"`
			}
			if json.Unmarshal(j, &o) == nil {
				validDev[strings.Join(o.Toks, " ")] = true
			}
		})
	if err != nil || st2.ExitCode != 0 {
		c.Rep.Fatal(fmt.Sprintf("LuaGrammar.tla (DevParen) run failed (exit %d): %v\n%s", st2.ExitCode, err, lastLines(st2.Out, 12)))
		return
	}
	sort.Slice(chunks, func(i, j int) bool { return strings.Join(chunks[i], " ") < strings.Join(chunks[j], " ") })
	c.Rep.Extra["valid_chunks_enumerated"] = len(chunks)
	// ---- cases: valid chunks (2 spellings each) and classified mutants ----
	type tcase struct {
		toks  []string
		valid bool
		how   string
		text  string
	}
	var cases []tcase
	seenM := map[string]bool{}
	addCase := func(toks []string, v bool, how string, variant uint64) {
		cases = append(cases, tcase{toks, v, how, renderToks(toks, variant)})
	}
	subRate := uint64(8) // every 8th substitution in the quick tier
	if c.Thorough() {
		subRate = 3
	}
	for _, ch := range chunks {
		key := strings.Join(ch, " ")
		h := hash64(key, c.Seed)
		addCase(ch, true, "valid", h)
		addCase(ch, true, "valid", h>>7)
		mut := func(m []string, how string) {
			if len(m) == 0 || len(m) > n {
				return
			}
			mk := strings.Join(m, " ")
			for _, t := range m {
				// '...' is an expression at chunk level but a context error inside a non-vararg function, and the attribute
				// token spells as '<' name '>' which reads as comparison operators elsewhere: mutants that move or create
				// them cannot be classified at the level of token kinds -> not generated
				if t == "..." || t == "attr" {
					return
				}
			}
			if valid[mk] || seenM[mk] {
				return // still a chunk of the language (covered as such), or already taken
			}
			seenM[mk] = true
			addCase(m, false, how, hash64(mk, c.Seed))
		}
		for i := range ch {
			d := append(append([]string{}, ch[:i]...), ch[i+1:]...)
			mut(d, "delete")
			if i+1 < len(ch) {
				s := append([]string{}, ch...)
				s[i], s[i+1] = s[i+1], s[i]
				mut(s, "swap")
			}
			dup := append(append(append([]string{}, ch[:i+1]...), ch[i]), ch[i+1:]...)
			mut(dup, "duplicate")
			for ai, a := range tokAlphabet {
				if a == ch[i] || (h+uint64(i*41+ai))%subRate != 0 {
					continue
				}
				s := append([]string{}, ch...)
				s[i] = a
				mut(s, "substitute")
			}
		}
	}
	// ---- focus frames: one list non-terminal inside a fixed frame, enumerated to a larger bound; edits stay inside the
	// frame's hole (its alphabet has no brackets, so an edit cannot escape the frame), hence an edited text of at most
	// the bound's length is valid iff TLC enumerated it ----
	type focus struct {
		name     string
		pre, suf int // frame tokens before and after the hole
		alphabet []string
		bound    int
		brackets bool // long flat list: the only edits are deletions of a bracket and its replacement by a keyword; such a
		// text has unbalanced brackets, and LuaGrammar.tla's invariant Balanced says no chunk has
	}
	fb := 11
	if c.Thorough() {
		fb = 13
	}
	for _, fc := range []focus{
		{"params", 3, 2, []string{"name", ",", "..."}, fb, false},
		{"forin", 2, 4, []string{"name", ","}, fb, false},
		{"attnames", 1, 1, []string{"name", ",", "attr"}, fb - 3, false},
		{"funcname", 1, 3, []string{"name", ".", ":"}, fb, false},
		{"flatfields", 4, 1, nil, 120, true},
		{"flatargs", 2, 1, nil, 80, true},
	} {
		fvalid := map[string]bool{}
		var fchunks [][]string
		stf, err := c.TLC(tlc.Run{Module: "LuaGrammar", Workers: 4, Timeout: 20 * time.Minute,
			Cfg: fmt.Sprintf("CONSTANTS\n  MaxTok = %d\n  MaxStack = 14\n  Focus = %q\n  DevParen = FALSE\nINIT Init\nNEXT Next\nINVARIANTS Bounded Balanced Emit\nCHECK_DEADLOCK FALSE\n", fc.bound, fc.name)},
			func(j json.RawMessage) {
				var o struct {
					Toks []string `json:"toks"`
				}
				if json.Unmarshal(j, &o) != nil {
					return
				}
				k := strings.Join(o.Toks, " ")
				if !fvalid[k] {
					fvalid[k] = true
					fchunks = append(fchunks, o.Toks)
				}
			})
		if err != nil || stf.ExitCode != 0 {
			c.Rep.Fatal(fmt.Sprintf("LuaGrammar.tla (focus %s) run failed (exit %d): %v\n%s", fc.name, stf.ExitCode, err, lastLines(stf.Out, 12)))
			return
		}
		sort.Slice(fchunks, func(i, j int) bool { return strings.Join(fchunks[i], " ") < strings.Join(fchunks[j], " ") })
		nmut := 0
		for _, ch := range fchunks {
			key := strings.Join(ch, " ")
			h := hash64(key, c.Seed)
			addCase(ch, true, "valid/"+fc.name, h)
			fmut := func(m []string, how string) {
				if len(m) > fc.bound {
					return
				}
				// only one <close> per statement is legal Lua; the attribute spelling rotates, so at most one attribute
				na := 0
				for _, t := range m {
					if t == "attr" {
						na++
					}
				}
				mk := strings.Join(m, " ")
				if na > 1 || fvalid[mk] || seenM["F:"+fc.name+":"+mk] {
					return
				}
				seenM["F:"+fc.name+":"+mk] = true
				nmut++
				addCase(m, false, how+"/"+fc.name, hash64(mk, c.Seed))
			}
			if fc.brackets {
				for i, t := range ch {
					if t == "{" || t == "}" || t == "(" || t == ")" {
						fmut(append(append([]string{}, ch[:i]...), ch[i+1:]...), "delete-bracket")
						if t == "{" || t == "(" {
							sub := append([]string{}, ch...)
							sub[i] = "do"
							fmut(sub, "bracket-to-do")
						}
					}
				}
				continue
			}
			lo, hi := fc.pre, len(ch)-fc.suf // the hole is ch[lo:hi]
			for i := lo; i <= hi; i++ {
				for _, a := range fc.alphabet {
					ins := append(append(append([]string{}, ch[:i]...), a), ch[i:]...)
					fmut(ins, "insert")
				}
				if i < hi {
					fmut(append(append([]string{}, ch[:i]...), ch[i+1:]...), "delete")
					for _, a := range fc.alphabet {
						if a != ch[i] {
							sub := append([]string{}, ch...)
							sub[i] = a
							fmut(sub, "substitute")
						}
					}
					if i+1 < hi {
						sw := append([]string{}, ch...)
						sw[i], sw[i+1] = sw[i+1], sw[i]
						fmut(sw, "swap")
					}
				}
			}
		}
		c.Rep.Extra["focus_"+fc.name] = map[string]int{"valid": len(fchunks), "mutants": nmut, "bound": fc.bound}
	}
	c.Rep.Extra["mutants_classified_invalid"] = len(seenM)
	// ---- fast path: parser.BeginAnalyze on batches ----
	p := c.NewPool(0)
	const batch = 1500
	var groups [][]*proto.Case
	for i := 0; i < len(cases); i += batch {
		j := i + batch
		if j > len(cases) {
			j = len(cases)
		}
		pc := &proto.Case{Op: "parse", ID: i/batch + 1}
		for _, tc := range cases[i:j] {
			pc.Texts = append(pc.Texts, tc.text)
		}
		groups = append(groups, []*proto.Case{pc})
	}
	type dis struct {
		idx int
		got int
		msg string
	}
	var disagreements []dis
	perr := p.RunSlice(groups, func(pc *proto.Case, res *proto.Result) {
		base := (pc.ID - 1) * batch
		if res.Crash != "" || res.Hang {
			raw, _ := json.Marshal(map[string]interface{}{"fam": "grammar-batch", "first": cases[base].text})
			c.Rep.Violation(raw, fmt.Sprintf("the parser crashed or hung on a batch of generated chunks (crash=%q hang=%v)", res.Crash, res.Hang))
			return
		}
		for _, h := range res.Hooks {
			raw, _ := json.Marshal(map[string]interface{}{"fam": "grammar-batch", "first": cases[base].text})
			c.Rep.Violation(raw, "the parser swallowed an internal fault (recover) while parsing generated chunks: "+string(h))
		}
		var rs []parseRes
		if json.Unmarshal(res.Parse, &rs) != nil || len(rs) != len(pc.Texts) {
			c.Rep.Inconclusive("parse batch returned no result")
			return
		}
		for k, r := range rs {
			tc := cases[base+k]
			c.Rep.Eval(strings.Join(tc.toks, " "))
			if (r.N > 0) == !tc.valid {
				continue
			}
			disagreements = append(disagreements, dis{base + k, r.N, r.Msg})
		}
	})
	if perr != nil {
		c.Rep.Fatal("pool failure: " + perr.Error())
		return
	}
	// ---- real server: a seeded sample plus every disagreement ----
	sampleN := 4000
	if c.Thorough() {
		sampleN = 40000
	}
	pick := map[int]bool{}
	for _, d := range disagreements {
		pick[d.idx] = true
	}
	for i := range cases {
		if len(pick) >= sampleN+len(disagreements) {
			break
		}
		if hash64(cases[i].text, c.Seed+7)%uint64(len(cases)/sampleN+1) == 0 {
			pick[i] = true
		}
	}
	var idxs []int
	for i := range pick {
		idxs = append(idxs, i)
	}
	sort.Ints(idxs)
	const perWs = 40
	var sgroups [][]*proto.Case
	wsOf := map[int][]int{}
	for i := 0; i < len(idxs); i += perWs {
		j := i + perWs
		if j > len(idxs) {
			j = len(idxs)
		}
		pc := &proto.Case{ID: i/perWs + 1, Files: map[string]string{}, Init: json.RawMessage(allOnLocal)}
		for k, ci := range idxs[i:j] {
			pc.Files[fmt.Sprintf("c%03d.lua", k)] = cases[ci].text
		}
		wsOf[pc.ID] = idxs[i:j]
		sgroups = append(sgroups, []*proto.Case{pc})
	}
	serverSays := map[int]bool{} // case index -> has type-1 diagnostic
	p2 := c.NewPool(0)
	p2.BaseDir += "s"
	p2.RunSlice(sgroups, func(pc *proto.Case, res *proto.Result) {
		if res.Crash != "" || res.Hang {
			raw, _ := json.Marshal(map[string]interface{}{"fam": "grammar-ws", "files": pc.Files})
			c.Rep.Violation(raw, fmt.Sprintf("the server crashed or hung on a workspace of generated chunks (crash=%q hang=%v)", res.Crash, res.Hang))
			return
		}
		view := map[string][]diag{}
		foldDiags(res.Root, view, res.InitNtfs)
		for k, ci := range wsOf[pc.ID] {
			has := false
			for _, x := range view[fmt.Sprintf("c%03d.lua", k)] {
				if x.Type == 1 {
					has = true
				}
			}
			serverSays[ci] = has
		}
	})
	c.Rep.Extra["chunks_through_real_server"] = len(serverSays)
	c.Rep.Traces = int64(len(serverSays))
	c.Rep.Extra["fastpath_disagreements"] = len(disagreements)
	report := func(ci int, via string, hasErr bool, msg string) {
		tc := cases[ci]
		raw, _ := json.Marshal(map[string]interface{}{"fam": "grammar", "toks": tc.toks, "valid": tc.valid, "how": tc.how, "text": tc.text})
		var desc string
		if tc.valid {
			desc = fmt.Sprintf("valid code is flagged with a syntax error (%s: %s): token kinds [%s] spelled %q", via, msg, strings.Join(tc.toks, " "), tc.text)
		} else {
			desc = fmt.Sprintf("invalid code (%s of a valid chunk; not in the enumerated language) is reported clean (%s): token kinds [%s] spelled %q", tc.how, via, strings.Join(tc.toks, " "), tc.text)
		}
		if !tc.valid && !hasErr && validDev[strings.Join(tc.toks, " ")] {
			c.Rep.Deviation("Dev_ParenVarAssignable", desc, raw)
			return
		}
		if surveyMode {
			sig := "valid flagged: " + msg
			if !tc.valid {
				sig = "invalid clean (" + tc.how + "): " + mutSig(tc.toks)
			}
			sv.add(sig, desc)
			return
		}
		c.Rep.Violation(raw, desc)
	}
	reported := map[int]bool{}
	for _, d := range disagreements {
		reported[d.idx] = true
		report(d.idx, "parser.BeginAnalyze", d.got > 0, d.msg)
	}
	for ci, has := range serverSays {
		if reported[ci] {
			continue
		}
		if has == cases[ci].valid { // server disagrees with the oracle although the fast path agreed
			report(ci, "publishDiagnostics (the parser entry point agreed with the oracle: the two observation points differ)", has, "")
		}
	}
	c.Rep.Exhaustive = true
	for i := 0; i < len(cases) && i < 3; i++ {
		c.Rep.Sample(map[string]interface{}{"toks": cases[i*997%len(cases)].toks, "valid": cases[i*997%len(cases)].valid, "text": cases[i*997%len(cases)].text}, 3)
	}
	c.poolStats(p)
	if surveyMode {
		sv.dump()
	}
}

// mutSig abstracts a token sequence for the survey (first 5 kinds).
func mutSig(t []string) string {
	if len(t) > 6 {
		t = t[:6]
	}
	return strings.Join(t, " ")
}
