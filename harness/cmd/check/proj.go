package main

// Project.tla family: workspaces whose entry file reaches every file through require statements. Each workspace is run
// twice on the real server -- once with a luahelper.json naming main.lua as project entry, once without -- and every
// answer (start-up diagnostics, definition, references, hover, highlight, completion, outline, workspace symbols, rename)
// must be the same in both modes; besides, the answers the model fixes outright (where a global / member is declared,
// how many occurrences it has, that nothing is undefined) are checked in both modes.

import (
	"encoding/json"
	"fmt"
	"os"
	"sort"
	"strings"
	"time"

	"verifharness/internal/pool"
	"verifharness/internal/proto"
	"verifharness/internal/tlc"
)

var projFiles = []string{"main", "a", "b", "c", "t"}

type projCase struct {
	Req       map[string][]string                     `json:"req"`
	Shared    bool                                    `json:"shared"`
	Repeated  bool                                    `json:"repeated"`
	Order     []string                                `json:"order"`
	Saw       map[string][]string                     `json:"saw"`
	AsBuilt   map[string]map[string]map[string]string `json:"asbuilt"`
	AsBuiltFn map[string]map[string]map[string]string `json:"asbuiltfn"`
	Incl      []string                                `json:"incl"`
}

func (tc *projCase) inIncl(f string) bool {
	for _, x := range tc.Incl {
		if x == f {
			return true
		}
	}
	return false
}

// status: how a top-level read in file t.file of symbol t.sym resolves: ideally "ok"; as built in project mode
// Project.tla's AsBuilt ("ok", "cycle", "unknown"). Declarations and members are always "ok".
func (tc *projCase) status(t *projTok, asBuilt bool) string {
	if !asBuilt || t.def || t.member {
		return "ok"
	}
	k := strings.TrimSuffix(t.sym[:strings.LastIndex(t.sym, "_")], "2")
	if t.infn {
		return tc.AsBuiltFn[t.file][symFile(t.sym)][k]
	}
	return tc.AsBuilt[t.file][symFile(t.sym)][k]
}

// sees: in project mode, do the top-level reads of file f see the globals of file d (Project.tla Saw)?
func (tc *projCase) sees(f, d string) bool {
	for _, x := range tc.Saw[f] {
		if x == d {
			return true
		}
	}
	return false
}

// symFile: the file that declares a symbol ("g_a" -> "a").
func symFile(sym string) string { return sym[strings.LastIndex(sym, "_")+1:] }

// projTok: one identifier occurrence of interest in a rendered file.
type projTok struct {
	file      string // "main", "a", ...
	line, col int
	name      string // identifier text
	sym       string // symbol key: "g_a", "h_b", "fn_c", "f_a" (member field), "m_a" (member function)
	def       bool
	member    bool
	infn      bool // a read inside a function body
}

type projRender struct {
	text  map[string]string
	toks  []projTok
	defs  map[string]projTok // symbol -> its declaration
	probe map[string]int     // file -> the empty line inside its function body (completion is also asked there)
	ext   []projExt          // member functions of global tables, declared in the table's file (own_) or in a requiring file (ext_)
}

// projRenderWS renders the four files of a workspace.  layout 0: files side by side; layout 1: files scattered over
// sub-directories (module names stay the bare file names, which the server resolves by file name).
func projRenderWS(tc *projCase) *projRender {
	r := &projRender{text: map[string]string{}, defs: map[string]projTok{}, probe: map[string]int{}}
	for _, f := range projFiles {
		var sb strings.Builder
		line := 0
		emit := func(s string, toks ...projTok) {
			for _, t := range toks {
				t.file, t.line = f, line
				r.toks = append(r.toks, t)
				if t.def {
					r.defs[t.sym] = t
				}
			}
			sb.WriteString(s + "\n")
			line++
		}
		for i, g := range tc.Req[f] {
			emit(fmt.Sprintf("local r%d = require(\"%s\")", i+1, g))
		}
		emit(fmt.Sprintf("g_%s = 1", f), projTok{col: 0, name: "g_" + f, sym: "g_" + f, def: true})
		emit(fmt.Sprintf("_G.h_%s = 2", f), projTok{col: 3, name: "h_" + f, sym: "h_" + f, def: true})
		emit(fmt.Sprintf("function fn_%s(p) return p end", f), projTok{col: 9, name: "fn_" + f, sym: "fn_" + f, def: true})
		// globals that no file reads (completion must offer them all the same)
		emit(fmt.Sprintf("g2_%s = 3", f), projTok{col: 0, name: "g2_" + f, sym: "g2_" + f, def: true})
		emit(fmt.Sprintf("_G.h2_%s = 4", f), projTok{col: 3, name: "h2_" + f, sym: "h2_" + f, def: true})
		// a global table with a member of its own, and members added to the tables of the required files
		emit(fmt.Sprintf("T_%s = {}", f))
		emit(fmt.Sprintf("function T_%s.own_%s(p) return p end", f, f))
		r.ext = append(r.ext, projExt{file: f, name: "own_" + f, line: line - 1})
		seenT := map[string]bool{}
		for _, g := range tc.Req[f] {
			if seenT[g] {
				continue
			}
			seenT[g] = true
			emit(fmt.Sprintf("function T_%s.ext_%s(p) return p end", g, f))
			r.ext = append(r.ext, projExt{file: f, name: "ext_" + f, line: line - 1})
		}
		emit("local M = {}")
		emit(fmt.Sprintf("M.f_%s = 1", f), projTok{col: 2, name: "f_" + f, sym: "f_" + f, def: true, member: true})
		emit(fmt.Sprintf("function M.m_%s(q) return q end", f), projTok{col: 11, name: "m_" + f, sym: "m_" + f, def: true, member: true})
		// reads of every file's globals
		for _, pre := range []string{"g_", "h_", "fn_"} {
			s := "print("
			var toks []projTok
			for k, g := range projFiles {
				if k > 0 {
					s += ", "
				}
				toks = append(toks, projTok{col: len(s), name: pre + g, sym: pre + g})
				s += pre + g
				if pre == "fn_" {
					s += "(1)"
				}
			}
			emit(s+")", toks...)
		}
		// the same reads inside a function body
		for _, pre := range []string{"g_", "h_", "fn_"} {
			s := "local function rd_" + strings.TrimSuffix(pre, "_") + "() return "
			var toks []projTok
			for k, g := range projFiles {
				if k > 0 {
					s += ", "
				}
				toks = append(toks, projTok{col: len(s), name: pre + g, sym: pre + g, infn: true})
				s += pre + g
			}
			emit(s+" end", toks...)
		}
		// reads of the members of every required module
		for i, g := range tc.Req[f] {
			rn := fmt.Sprintf("r%d", i+1)
			s := "print(" + rn + "."
			t1 := projTok{col: len(s), name: "f_" + g, sym: "f_" + g, member: true}
			s += "f_" + g + ", " + rn + "."
			t2 := projTok{col: len(s), name: "m_" + g, sym: "m_" + g, member: true}
			s += "m_" + g + "(2))"
			emit(s, t1, t2)
		}
		r.probe[f] = line + 1
		emit("local function probe(pp)")
		emit("")
		emit("end")
		emit("return M")
		r.text[f] = sb.String()
	}
	return r
}

var projDirs = [][]string{
	{"main.lua", "a.lua", "b.lua", "c.lua", "t.lua"},
	{"main.lua", "lib/a.lua", "lib/deep/b.lua", "other/c.lua", "tools/t.lua"},
	{"main.lua", "client/util/a.lua", "server/util/b.lua", "server/net/c.lua", "util/t.lua"}, // directories of equal base name
}

type projExt struct {
	file, name string
	line       int
}

type projQ struct {
	label string
	step  int
	tok   *projTok // nil for non-position queries
	kind  string
	pre   string // completion of a bare prefix: the prefix
	file  string // completion: the file typed into
}

type projJob struct {
	tc     *projCase
	r      *projRender
	layout int
	path   map[string]string
	qs     []projQ
	raw    json.RawMessage
}

// projBuildCase builds the driver case of one workspace in one mode.
func projBuildCase(id int, pj *projJob, project bool, kinds string) *proto.Case {
	wanted := func(k string) bool { return kinds == "" || strings.Contains(kinds, k) }
	pc := &proto.Case{ID: id, Files: map[string]string{}, Init: json.RawMessage(allOnLocal)}
	for _, f := range projFiles {
		pc.Files[pj.path[f]] = pj.r.text[f]
	}
	if project {
		pc.Files["luahelper.json"] = `{"ShowWarnFlag":1,"ProjectFiles":["main.lua"]}`
	}
	pj.qs = pj.qs[:0]
	add := func(st proto.Step, q projQ) {
		if !wanted(strings.Fields(q.label)[0]) {
			return
		}
		pc.Steps = append(pc.Steps, st)
		q.step = len(pc.Steps) - 1
		pj.qs = append(pj.qs, q)
	}
	// (when only the outline and the workspace symbols are asked, every second workspace is queried without opening
	// its files: the index must come from the workspace scan alone)
	if !(kinds == "outline wsym" && hash64(string(pj.raw), scSeed+21)%2 == 0) {
		for _, f := range projFiles {
			pc.Steps = append(pc.Steps, openStep(pj.path[f], pj.r.text[f]))
		}
	}
	for i := range pj.r.toks {
		t := &pj.r.toks[i]
		fn := pj.path[t.file]
		at := fmt.Sprintf("%s@%s:%d:%d", t.name, t.file, t.line, t.col)
		add(proto.Step{M: "textDocument/definition", P: posParams(fn, t.line, t.col+1)}, projQ{label: "definition " + at, tok: t, kind: "def"})
		add(proto.Step{M: "textDocument/references", P: refParams(fn, t.line, t.col+1)}, projQ{label: "references " + at, tok: t, kind: "ref"})
		add(proto.Step{M: "textDocument/hover", P: posParams(fn, t.line, t.col+1)}, projQ{label: "hover " + at, tok: t, kind: "hover"})
		if t.file == "main" || t.def {
			add(proto.Step{M: "textDocument/documentHighlight", P: posParams(fn, t.line, t.col+1)}, projQ{label: "highlight " + at, tok: t, kind: "hl"})
		}
		if t.def {
			add(proto.Step{M: "textDocument/rename", P: json.RawMessage(fmt.Sprintf(
				`{"textDocument":{"uri":"file://$ROOT/%s"},"position":{"line":%d,"character":%d},"newName":"zz_new"}`, fn, t.line, t.col+1))},
				projQ{label: "rename " + at, tok: t, kind: "rename"})
		}
	}
	for _, f := range projFiles {
		add(proto.Step{M: "textDocument/documentSymbol", P: json.RawMessage(fmt.Sprintf(`{"textDocument":{"uri":"file://$ROOT/%s"}}`, pj.path[f]))},
			projQ{label: "outline " + f, kind: "outline"})
	}
	seenQ := map[string]bool{}
	for _, e := range pj.r.ext {
		if !seenQ[e.name] {
			seenQ[e.name] = true
			add(proto.Step{M: "workspace/symbol", P: json.RawMessage(fmt.Sprintf(`{"query":%q}`, e.name))}, projQ{label: "wsym " + e.name, kind: "wsymx", pre: e.name})
		}
	}
	for _, q := range []string{"g_", "fn_a", "m_"} {
		add(proto.Step{M: "workspace/symbol", P: json.RawMessage(fmt.Sprintf(`{"query":%q}`, q))}, projQ{label: "wsym " + q, kind: "wsym"})
	}
	// completion: the editor types a prefix on a new last line of every file
	for _, f := range projFiles {
		fn := pj.path[f]
		nl := strings.Count(pj.r.text[f], "\n")
		ver := 2
		typed := []string{"g_", "h_", "fn_", "g2_", "h2_"}
		if len(pj.tc.Req[f]) > 0 {
			typed = append(typed, "r1.", "r1.m")
		}
		prev := ""
		for _, w := range typed {
			pc.Steps = append(pc.Steps, changeStep(fn, ver, nl, 0, nl, len(prev), w))
			ver++
			prev = w
			add(proto.Step{M: "textDocument/completion", P: compParams(fn, nl, len(w))}, projQ{label: "completion " + f + " after " + w, kind: "comp", pre: map[bool]string{true: w}[!strings.Contains(w, ".")], file: f})
		}
		pc.Steps = append(pc.Steps, changeStep(fn, ver, nl, 0, nl, len(prev), ""))
		ver++
		// ... and inside a function body
		pl := pj.r.probe[f]
		prev = ""
		for _, w := range []string{"g_", "h2_", "fn_", "g2_"} {
			pc.Steps = append(pc.Steps, changeStep(fn, ver, pl, 0, pl, len(prev), w))
			ver++
			prev = w
			add(proto.Step{M: "textDocument/completion", P: compParams(fn, pl, len(w))}, projQ{label: "completion " + f + " in a function body after " + w, kind: "comp", pre: w, file: f})
		}
		pc.Steps = append(pc.Steps, changeStep(fn, ver, pl, 0, pl, len(prev), ""))
	}
	return pc
}

// canonText: an answer as canonical text (arrays sorted, workspace root abstracted).
func canonText(root string, sr *proto.StepResult) string {
	b := sr.Reply
	pre := ""
	if len(sr.Err) > 0 {
		b, pre = sr.Err, "ERR:"
	}
	var v interface{}
	if json.Unmarshal(b, &v) == nil {
		b, _ = json.Marshal(canon(v))
	}
	return pre + strings.ReplaceAll(string(b), root, "$ROOT")
}

type pjLoc struct {
	file     string
	line, sc int
}

func pjLocs(root string, sr *proto.StepResult) []pjLoc {
	var ls []struct {
		URI   string `json:"uri"`
		Range struct {
			Start struct{ Line, Character int } `json:"start"`
		} `json:"range"`
	}
	if json.Unmarshal(sr.Reply, &ls) != nil {
		var one struct {
			URI   string `json:"uri"`
			Range struct {
				Start struct{ Line, Character int } `json:"start"`
			} `json:"range"`
		}
		if json.Unmarshal(sr.Reply, &one) == nil && one.URI != "" {
			ls = append(ls, one)
		}
	}
	var out []pjLoc
	for _, l := range ls {
		out = append(out, pjLoc{file: strings.TrimPrefix(strings.TrimPrefix(l.URI, "file://"), root+"/"), line: l.Range.Start.Line, sc: l.Range.Start.Character})
	}
	sort.Slice(out, func(i, j int) bool {
		if out[i].file != out[j].file {
			return out[i].file < out[j].file
		}
		if out[i].line != out[j].line {
			return out[i].line < out[j].line
		}
		return out[i].sc < out[j].sc
	})
	return out
}

// projExpect: what the answers of one mode must be, under the ideal reading (asBuilt=false) or Project.tla's as-built
// reading of project mode. Returned as label -> canonical expectation text; only the kinds in `kinds` are produced.
func projExpect(pj *projJob, asBuilt bool) map[string]string {
	exp := map[string]string{}
	st := func(t *projTok) string { return pj.tc.status(t, asBuilt) }
	var dg []string
	for i := range pj.r.toks {
		t := &pj.r.toks[i]
		switch st(t) {
		case "cycle":
			dg = append(dg, fmt.Sprintf("%s t3@%d:%d", pj.path[t.file], t.line, t.col))
		case "unknown":
			dg = append(dg, fmt.Sprintf("%s t2@%d:%d", pj.path[t.file], t.line, t.col))
		}
	}
	sort.Strings(dg)
	exp["diagnostics"] = strings.Join(dg, ",")
	for _, q := range pj.qs {
		if q.kind == "wsymx" {
			// a member function is found by its exact name, at its declaration (every declaration of that name)
			var ls []string
			for _, e := range pj.r.ext {
				if e.name == q.pre {
					ls = append(ls, fmt.Sprintf("%s:%d", pj.path[e.file], e.line))
				}
			}
			sort.Strings(ls)
			exp[q.label] = strings.Join(ls, " ")
		}
		if q.kind == "comp" && q.pre != "" {
			// every global of the workspace with the typed prefix is offered
			var ls []string
			for _, d := range projFiles {
				t := projTok{file: q.file, sym: q.pre + d}
				if st(&t) != "unknown" {
					ls = append(ls, q.pre+d)
				}
			}
			sort.Strings(ls)
			exp[q.label] = strings.Join(ls, " ")
		}
		if q.tok == nil {
			continue
		}
		d := pj.r.defs[q.tok.sym]
		occs := func(sameFile bool) string {
			if asBuilt && !sameFile && !q.tok.member && symFile(q.tok.sym) == "t" {
				// a global of the scattered file: the search covers the scattered file and what it requires,
				// wherever it is asked (Project.tla Incl)
				var ls []string
				for k := range pj.r.toks {
					t := &pj.r.toks[k]
					if t.sym == q.tok.sym && pj.tc.inIncl(t.file) {
						ls = append(ls, fmt.Sprintf("%s:%d:%d", pj.path[t.file], t.line, t.col))
					}
				}
				sort.Strings(ls)
				return strings.Join(ls, " ")
			}
			if st(q.tok) == "unknown" {
				return ""
			}
			var ls []string
			for k := range pj.r.toks {
				t := &pj.r.toks[k]
				if t.sym == q.tok.sym && st(t) != "unknown" && (!sameFile || t.file == q.tok.file) {
					if sameFile {
						ls = append(ls, fmt.Sprintf(":%d:%d", t.line, t.col))
					} else {
						ls = append(ls, fmt.Sprintf("%s:%d:%d", pj.path[t.file], t.line, t.col))
					}
				}
			}
			sort.Strings(ls)
			return strings.Join(ls, " ")
		}
		switch q.kind {
		case "def":
			if st(q.tok) == "unknown" {
				exp[q.label] = ""
			} else {
				exp[q.label] = fmt.Sprintf("%s:%d:%d", pj.path[d.file], d.line, d.col)
			}
		case "ref", "rename":
			exp[q.label] = occs(false)
		case "hl":
			exp[q.label] = occs(true)
		}
	}
	return exp
}

// projObserve: the same facts read off the real answers of one mode.
func projObserve(pj *projJob, res *proto.Result) map[string]string {
	got := map[string]string{}
	view := map[string][]diag{}
	foldDiags(res.Root, view, res.InitNtfs)
	var dg []string
	for f, ds := range view {
		for _, x := range ds {
			if x.Type == 2 || x.Type == 3 {
				dg = append(dg, fmt.Sprintf("%s t%d@%d:%d", f, x.Type, x.SL, x.SC))
			}
		}
	}
	sort.Strings(dg)
	got["diagnostics"] = strings.Join(dg, ",")
	for _, q := range pj.qs {
		if q.kind == "wsymx" && q.step < len(res.Steps) {
			var syms []struct {
				Name     string `json:"name"`
				Location struct {
					URI   string `json:"uri"`
					Range struct {
						Start struct{ Line, Character int } `json:"start"`
					} `json:"range"`
				} `json:"location"`
			}
			json.Unmarshal(res.Steps[q.step].Reply, &syms)
			seen := map[string]bool{}
			var ls []string
			for _, y := range syms {
				if strings.HasSuffix(y.Name, q.pre) || strings.Contains(y.Name, q.pre+"(") {
					x := fmt.Sprintf("%s:%d", strings.TrimPrefix(strings.TrimPrefix(y.Location.URI, "file://"), res.Root+"/"), y.Location.Range.Start.Line)
					if !seen[x] {
						seen[x] = true
						ls = append(ls, x)
					}
				}
			}
			sort.Strings(ls)
			got[q.label] = strings.Join(ls, " ")
		}
		if q.kind == "comp" && q.pre != "" && q.step < len(res.Steps) {
			var cl struct {
				Items []struct {
					Label string `json:"label"`
				} `json:"items"`
			}
			json.Unmarshal(res.Steps[q.step].Reply, &cl)
			var ls []string
			for _, it := range cl.Items {
				if strings.HasPrefix(it.Label, q.pre) && len(it.Label) > len(q.pre) {
					ls = append(ls, it.Label)
				}
			}
			sort.Strings(ls)
			got[q.label] = strings.Join(ls, " ")
		}
		if q.tok == nil || q.step >= len(res.Steps) {
			continue
		}
		sr := &res.Steps[q.step]
		switch q.kind {
		case "def", "ref", "hl":
			var ls []string
			for _, l := range pjLocs(res.Root, sr) {
				ls = append(ls, fmt.Sprintf("%s:%d:%d", l.file, l.line, l.sc))
			}
			sort.Strings(ls)
			got[q.label] = strings.Join(ls, " ")
		case "rename":
			var we struct {
				Changes map[string][]struct {
					NewText string `json:"newText"`
					Range   struct {
						Start struct{ Line, Character int } `json:"start"`
						End   struct{ Line, Character int } `json:"end"`
					} `json:"range"`
				} `json:"changes"`
			}
			json.Unmarshal(sr.Reply, &we)
			var ls []string
			for uri, es := range we.Changes {
				f := strings.TrimPrefix(strings.TrimPrefix(uri, "file://"), res.Root+"/")
				for _, e := range es {
					x := fmt.Sprintf("%s:%d:%d", f, e.Range.Start.Line, e.Range.Start.Character)
					if e.NewText != "zz_new" || e.Range.End.Line != e.Range.Start.Line || e.Range.End.Character-e.Range.Start.Character != len(q.tok.name) {
						x += fmt.Sprintf("(bad edit %q to %d:%d)", e.NewText, e.Range.End.Line, e.Range.End.Character)
					}
					ls = append(ls, x)
				}
			}
			sort.Strings(ls)
			got[q.label] = strings.Join(ls, " ")
		}
	}
	return got
}

func projClass(s string) string {
	// survey key: mode + query kind + symbol family + shape
	w := strings.Fields(s)
	k := ""
	for i, x := range w {
		if i >= 3 {
			break
		}
		if j := strings.IndexAny(x, "@"); j > 0 {
			x = x[:j]
			if u := strings.LastIndex(x, "_"); u > 0 {
				x = x[:u+1]
			}
		}
		k += x + " "
	}
	return k
}

// projectRuns: Project.tla workspaces, both modes, both layouts (the layout is seeded per workspace).
func projectRuns(c *Ctx, p *pool.Pool, maxReq int, kinds string) bool {
	if maxReq == 0 {
		maxReq = 5
		if c.Thorough() {
			maxReq = 6
		}
		if v := os.Getenv("VERIF_REQ"); v != "" {
			fmt.Sscan(v, &maxReq)
		}
	}
	var raws []json.RawMessage
	st, err := c.TLC(tlc.Run{Module: "Project", Workers: 2, Timeout: 10 * time.Minute,
		Cfg: fmt.Sprintf("CONSTANTS\n  MaxReq = %d\nINIT Init\nNEXT Next\nINVARIANTS TypeOK EntryMember FnNeverCycle SawSelf EntrySeesAll SawSound PlainSeesMore OrderIsMembers NoMutualSight EntryResolvesAll GNeverUnknown Emit\nCHECK_DEADLOCK FALSE\n", maxReq)}, func(j json.RawMessage) {
		raws = append(raws, append(json.RawMessage{}, j...))
	})
	if err != nil || st.ExitCode != 0 {
		c.Rep.Fatal(fmt.Sprintf("project: TLC failure: %v exit=%d\n%s", err, st.ExitCode, lastLines(st.Out, 15)))
		return false
	}
	n, ok := projJudgeAll(c, p, raws, kinds)
	if !ok {
		return false
	}
	c.Rep.Assumptions = append(c.Rep.Assumptions, "project family: every file has the shape requires ; definitions ; reads, and the entry file reaches every file (Project.tla Covered); both modes are judged against the statement, project mode also against Project.tla's as-built reading (AsBuilt), whose deviations are the known finding Dev_ProjectLoadOrder")
	c.Rep.Extra["run_project"] = map[string]interface{}{"tlc_generated": st.Generated, "tlc_distinct": st.Distinct, "workspaces": len(raws), "replayed_pairs": n, "max_requires": maxReq, "judged": kinds}
	return true
}

// projReplay: replays a stored Project.tla workspace (used by every check that runs the family).
func projReplay(c *Ctx, raw json.RawMessage, kinds string) bool {
	var o struct {
		Fam string `json:"fam"`
	}
	if json.Unmarshal(raw, &o) != nil || o.Fam != "project" {
		return false
	}
	projJudgeAll(c, c.NewPool(2), []json.RawMessage{raw}, kinds)
	c.Rep.Sample(map[string]interface{}{"replayed": raw}, 1)
	return true
}

// projJudgeAll runs the workspaces in both modes and judges the answer kinds named in kinds ("" = all).
func projJudgeAll(c *Ctx, p *pool.Pool, raws []json.RawMessage, kinds string) (int, bool) {
	type pair struct {
		pj    *projJob
		res   [2]*proto.Result
		qs    [2][]projQ
		cases [2]*proto.Case
	}
	pairs := map[int]*pair{}
	var groups [][]*proto.Case
	for i, raw := range raws {
		var tc projCase
		if json.Unmarshal(raw, &tc) != nil {
			continue
		}
		layout := int(hash64(string(raw), scSeed) % 3)
		pj := &projJob{tc: &tc, r: projRenderWS(&tc), layout: layout, path: map[string]string{}, raw: raw}
		for k, f := range projFiles {
			pj.path[f] = projDirs[layout][k]
		}
		pr := &pair{pj: pj}
		for m := 0; m < 2; m++ {
			pc := projBuildCase(2*i+m+1, pj, m == 1, kinds)
			pr.cases[m] = pc
			pr.qs[m] = append([]projQ{}, pj.qs...)
			groups = append(groups, []*proto.Case{pc})
		}
		pairs[i] = pr
	}
	n := 0
	perr := p.RunSlice(groups, func(pc *proto.Case, res *proto.Result) {
		i := (pc.ID - 1) / 2
		m := (pc.ID - 1) % 2
		pr := pairs[i]
		pr.res[m] = res
		if pr.res[0] == nil || pr.res[1] == nil {
			return
		}
		n++
		delete(pairs, i)
		pj := pr.pj
		c.Rep.Eval(string(pj.raw))
		c.Rep.Sample(map[string]interface{}{"run": "project", "behaviour": pj.raw}, 4)
		rq, _ := json.Marshal(pj.tc.Req)
		desc := fmt.Sprintf("workspace requires %s, load order %v, layout %v", rq, pj.tc.Order, projDirs[pj.layout])
		for m := 0; m < 2; m++ {
			if pr.res[m].Crash != "" || pr.res[m].Hang {
				c.Rep.Violation(pj.raw, fmt.Sprintf("%s: server died or hung in %s mode (crash=%q)", desc, []string{"plain", "project"}[m], pr.res[m].Crash))
				return
			}
		}
		var prob []string
		deviates := false
		pj.qs = pr.qs[0]
		ideal := projExpect(pj, false)
		built := projExpect(pj, true)
		for m, mode := range []string{"plain", "project"} {
			got := projObserve(pj, pr.res[m])
			for k, w := range ideal {
				if kinds != "" && !strings.Contains(kinds, strings.Fields(k)[0]) {
					continue
				}
				g := got[k]
				if g == w {
					continue
				}
				if m == 1 && g == built[k] {
					deviates = true
					continue
				}
				prob = append(prob, fmt.Sprintf("[%s] %s: expected {%s} (as built {%s}), answer {%s}", mode, k, w, built[k], g))
			}
		}
		// the remaining answers (hover, outline, workspace symbols, completion) must not depend on the mode, except
		// where Project.tla's as-built reading makes a name unresolvable
		for _, q := range pr.qs[0] {
			if q.step >= len(pr.res[0].Steps) || q.step >= len(pr.res[1].Steps) {
				continue
			}
			if kinds != "" && !strings.Contains(kinds, strings.Fields(q.label)[0]) {
				continue
			}
			switch q.kind {
			case "hover":
				if pj.tc.status(q.tok, true) != "ok" {
					continue
				}
			case "comp":
				if q.pre != "" {
					continue // judged against the model above
				}
			case "outline", "wsym":
				if q.kind == "wsymx" {
					continue
				}
			default:
				continue
			}
			a := canonText(pr.res[0].Root, &pr.res[0].Steps[q.step])
			b := canonText(pr.res[1].Root, &pr.res[1].Steps[q.step])
			if a != b {
				prob = append(prob, fmt.Sprintf("[diff] %s: plain %s, project %s", q.label, clip(a, 300), clip(b, 300)))
			}
		}
		if len(prob) == 0 && deviates && !surveyMode && c.Prop != "PROJ" {
			c.Rep.Deviation("Dev_ProjectLoadOrder", desc, pj.raw)
		}
		if len(prob) == 0 {
			return
		}
		if surveyMode {
			for _, s := range prob {
				sv.add("project "+projClass(s), desc+": "+s)
			}
			return
		}
		c.Rep.Violation(pj.raw, desc+": "+strings.Join(prob, "; "))
	})
	c.Rep.Traces += int64(n)
	if perr != nil {
		c.Rep.Fatal(fmt.Sprintf("project: pool failure: %v", perr))
		return n, false
	}
	return n, true
}

func diagKeySet(ds []diag) string {
	var ss []string
	for _, x := range ds {
		ss = append(ss, fmt.Sprintf("t%d@%d:%d", x.Type, x.SL, x.SC))
	}
	sort.Strings(ss)
	return strings.Join(ss, ",")
}

func clip(s string, n int) string {
	if len(s) > n {
		return s[:n] + "…"
	}
	return s
}

func init() { registry["PROJ"] = checkPROJ }

// checkPROJ: development entry point (not a property): the Project.tla family alone.
func checkPROJ(c *Ctx) {
	p := c.NewPool(0)
	projectRuns(c, p, 0, os.Getenv("VERIF_KINDS"))
	c.poolStats(p)
	if surveyMode {
		sv.dump()
	}
}

// ---- histories in project mode (C08) ----

// projEdited: the text of file f after edit step k (1: its plain global g_f is renamed away, so that every read of it
// dangles; 2: the global comes back two lines lower). The require statements are not touched.
func projEdited(text, f string, k int) string {
	old := fmt.Sprintf("g_%s = 1\n", f)
	switch k {
	case 1:
		return strings.Replace(text, old, fmt.Sprintf("gx_%s = 1\n", f), 1)
	case 2:
		return strings.Replace(text, old, fmt.Sprintf("gx_%s = 1\ngy_%s = 1\ng_%s = 1\n", f, f, f), 1)
	}
	return text
}

// projHistoryRuns: on Project.tla workspaces in project mode, one file (a seeded choice per workspace) is edited and
// saved twice; after each save the client's diagnostics and the answers to go-to-definition on every occurrence of
// the edited global must equal those of a fresh server started on the files as they then are.
func projHistoryRuns(c *Ctx, p *pool.Pool, maxReq int, given []json.RawMessage) bool {
	raws := given
	if given == nil {
		st, err := c.TLC(tlc.Run{Module: "Project", Workers: 2, Timeout: 10 * time.Minute,
			Cfg: fmt.Sprintf("CONSTANTS\n  MaxReq = %d\nINIT Init\nNEXT Next\nINVARIANTS TypeOK EntryMember Emit\nCHECK_DEADLOCK FALSE\n", maxReq)}, func(j json.RawMessage) {
			raws = append(raws, append(json.RawMessage{}, j...))
		})
		if err != nil || st.ExitCode != 0 {
			c.Rep.Fatal(fmt.Sprintf("project histories: TLC failure: %v exit=%d\n%s", err, st.ExitCode, lastLines(st.Out, 15)))
			return false
		}
	}
	type hist struct {
		raw    json.RawMessage
		tc     *projCase
		r      *projRender
		path   map[string]string
		edit   string
		res    [3]*proto.Result // 0: history, 1: fresh after step 1, 2: fresh after step 2
		two    bool
		marks  [2]int      // history: index of the last step of edit k
		qsteps [3][][2]int // per case: (first query step, count) per snapshot
	}
	hs := map[int]*hist{}
	var groups [][]*proto.Case
	cfgText := `{"ShowWarnFlag":1,"ProjectFiles":["main.lua"]}`
	for i, raw := range raws {
		var tc projCase
		if json.Unmarshal(raw, &tc) != nil {
			continue
		}
		hv := hash64(string(raw), scSeed+77)
		h := &hist{raw: raw, tc: &tc, r: projRenderWS(&tc), path: map[string]string{}, edit: projFiles[int(hv%uint64(len(projFiles)))]}
		layout := int(hv>>8) % 3
		for k, f := range projFiles {
			h.path[f] = projDirs[layout][k]
		}
		// queries: definition on every occurrence of the edited file's plain global, per snapshot text
		queries := func(pc *proto.Case, k int) [2]int {
			first := len(pc.Steps)
			n := 0
			for _, f := range projFiles {
				text := h.r.text[f]
				if f == h.edit {
					text = projEdited(text, f, k)
				}
				name := "g_" + h.edit
				for li, line := range strings.Split(text, "\n") {
					for off := 0; ; {
						j := strings.Index(line[off:], name)
						if j < 0 {
							break
						}
						col := off + j
						if col == 0 || !(line[col-1] == '_' || (line[col-1] >= 'a' && line[col-1] <= 'z')) {
							pc.Steps = append(pc.Steps, proto.Step{M: "textDocument/definition", P: posParams(h.path[f], li, col+1)})
							n++
						}
						off = col + len(name)
					}
				}
			}
			return [2]int{first, n}
		}
		// every second history has a second entry file that requires what main requires and reads the modules' globals:
		// a module is then a member of two projects, and both must follow its edits
		two := (hv>>16)%2 == 0
		main2 := ""
		if two {
			for ri, g := range tc.Req["main"] {
				main2 += fmt.Sprintf("local q%d = require(\"%s\")\n", ri+1, g)
			}
			main2 += "print(g_a, g_b, g_c)\nprint(h_a, h_b, h_c)\n"
		}
		mk := func(id int, k int) *proto.Case {
			pc := &proto.Case{ID: id, Files: map[string]string{"luahelper.json": cfgText}, Init: json.RawMessage(allOnLocal)}
			if two {
				pc.Files["luahelper.json"] = `{"ShowWarnFlag":1,"ProjectFiles":["main.lua","main2.lua"]}`
				pc.Files["main2.lua"] = main2
			}
			for _, f := range projFiles {
				text := h.r.text[f]
				if f == h.edit {
					text = projEdited(text, f, k)
				}
				pc.Files[h.path[f]] = text
			}
			return pc
		}
		// history
		hc := mk(3*i+1, 0)
		h.two = two
		for _, f := range projFiles {
			hc.Steps = append(hc.Steps, openStep(h.path[f], h.r.text[f]))
		}
		if two {
			hc.Steps = append(hc.Steps, openStep("main2.lua", main2))
		}
		fn := h.path[h.edit]
		nl := strings.Count(h.r.text[h.edit], "\n")
		prevLines := nl
		for k := 1; k <= 2; k++ {
			txt := projEdited(h.r.text[h.edit], h.edit, k)
			hc.Steps = append(hc.Steps, changeStep(fn, k+1, 0, 0, prevLines, 0, txt),
				proto.Step{M: "fs.write", Path: fn, Text: txt},
				proto.Step{M: "textDocument/didSave", N: true, P: json.RawMessage(fmt.Sprintf(`{"textDocument":{"uri":"file://$ROOT/%s"},"text":%s}`, fn, jstr(txt)))})
			prevLines = strings.Count(txt, "\n")
			h.marks[k-1] = len(hc.Steps) - 1
			h.qsteps[0] = append(h.qsteps[0], queries(hc, k))
		}
		groups = append(groups, []*proto.Case{hc})
		for k := 1; k <= 2; k++ {
			fc := mk(3*i+1+k, k)
			for _, f := range projFiles {
				fc.Steps = append(fc.Steps, openStep(h.path[f], fc.Files[h.path[f]]))
			}
			if two {
				fc.Steps = append(fc.Steps, openStep("main2.lua", main2))
			}
			h.qsteps[k] = append(h.qsteps[k], queries(fc, k))
			groups = append(groups, []*proto.Case{fc})
		}
		hs[i] = h
	}
	n := 0
	perr := p.RunSlice(groups, func(pc *proto.Case, res *proto.Result) {
		i := (pc.ID - 1) / 3
		h := hs[i]
		h.res[(pc.ID-1)%3] = res
		if h.res[0] == nil || h.res[1] == nil || h.res[2] == nil {
			return
		}
		delete(hs, i)
		n++
		c.Rep.Eval("hist:" + string(h.raw))
		rq, _ := json.Marshal(h.tc.Req)
		desc := fmt.Sprintf("project mode, workspace requires %s, %s edited and saved twice (its global g_%s renamed away, then restored two lines lower)", rq, h.path[h.edit], h.edit)
		for m := 0; m < 3; m++ {
			if h.res[m].Crash != "" || h.res[m].Hang {
				c.Rep.Violation(h.raw, fmt.Sprintf("%s: server died or hung (crash=%q, case %d)", desc, h.res[m].Crash, m))
				return
			}
		}
		var prob []string
		view := map[string][]diag{}
		foldDiags(h.res[0].Root, view, h.res[0].InitNtfs)
		si := 0
		for k := 1; k <= 2; k++ {
			for ; si <= h.marks[k-1] && si < len(h.res[0].Steps); si++ {
				foldDiags(h.res[0].Root, view, h.res[0].Steps[si].Ntfs)
			}
			fv := map[string][]diag{}
			foldDiags(h.res[k].Root, fv, h.res[k].InitNtfs)
			for _, st := range h.res[k].Steps {
				foldDiags(h.res[k].Root, fv, st.Ntfs)
			}
			cmp := []string{}
			for _, f := range projFiles {
				cmp = append(cmp, h.path[f])
			}
			if h.two {
				cmp = append(cmp, "main2.lua")
			}
			for _, fp := range cmp {
				a, b := diagKeySet(view[fp]), diagKeySet(fv[fp])
				if a != b {
					prob = append(prob, fmt.Sprintf("after save %d the client holds for %s {%s}, a fresh server reports {%s}", k, fp, a, b))
				}
			}
			hq, fq := h.qsteps[0][k-1], h.qsteps[k][0]
			for x := 0; x < hq[1] && x < fq[1]; x++ {
				if hq[0]+x >= len(h.res[0].Steps) || fq[0]+x >= len(h.res[k].Steps) {
					break
				}
				a := canonText(h.res[0].Root, &h.res[0].Steps[hq[0]+x])
				b := canonText(h.res[k].Root, &h.res[k].Steps[fq[0]+x])
				if a != b {
					prob = append(prob, fmt.Sprintf("after save %d definition query #%d on g_%s answers %s, a fresh server %s", k, x, h.edit, clip(a, 200), clip(b, 200)))
				}
			}
			// queries come after the save: fold what they triggered, too
			for ; si < hq[0]+hq[1] && si < len(h.res[0].Steps); si++ {
				foldDiags(h.res[0].Root, view, h.res[0].Steps[si].Ntfs)
			}
		}
		if len(prob) == 0 {
			return
		}
		if surveyMode {
			for _, s := range prob {
				sv.add("projhist "+firstWords(s, 7), desc+": "+s)
			}
			return
		}
		c.Rep.Violation(h.raw, desc+": "+strings.Join(prob, "; "))
	})
	c.Rep.Traces += int64(n)
	if perr != nil {
		c.Rep.Fatal(fmt.Sprintf("project histories: pool failure: %v", perr))
		return false
	}
	c.Rep.Extra["run_project_histories"] = map[string]interface{}{"workspaces": len(raws), "histories": n, "max_requires": maxReq}
	return true
}

func init() {
	registry["PROJH"] = func(c *Ctx) {
		p := c.NewPool(0)
		scSeed = c.Seed
		projHistoryRuns(c, p, 4, nil)
		c.poolStats(p)
		if surveyMode {
			sv.dump()
		}
	}
}
