package main

import (
	"encoding/json"
	"fmt"
	"sort"
	"strings"
	"time"

	"verifharness/internal/proto"
	"verifharness/internal/tlc"
)

func init() { registry["C16"] = checkC16 }

type anCase struct {
	Kind     string            `json:"kind"`
	Toks     []string          `json:"toks"`
	Types    []json.RawMessage `json:"types"`
	TypesDev []json.RawMessage `json:"typesdev"`
	Const    bool              `json:"const"`
	Cmt      bool              `json:"cmt"`
	Paren    bool              `json:"paren"`
	Fun      bool              `json:"fun"`
	Subject  string            `json:"subject"`
	Vis      string            `json:"vis"`
}

// anJoin writes a token sequence in the documented style (variant 0) or as tight as the tokens allow (variant 1).
func anJoin(toks []string, variant int) string {
	var sb strings.Builder
	sb.WriteString("-@")
	for i, t := range toks {
		prev := ""
		if i > 0 {
			prev = toks[i-1]
		}
		space := i > 0
		switch {
		case i == 0:
			space = false
		case t == "[" || t == "]" || t == "?" || t == "," || t == ")" || t == ">":
			space = false
		case prev == "(" || prev == "<" || prev == "[" || prev == "@":
			space = false
		case t == "(" && prev == "fun":
			space = false
		case t == "<" && prev == "table":
			space = false
		case t == ":":
			space = variant == 0 && prev == ")"
		case prev == ":" || prev == ",":
			space = variant == 0
		case t == "|" || prev == "|":
			space = variant == 0
		}
		if i == 1 {
			space = true // after the annotation keyword
		}
		if space {
			sb.WriteString(" ")
		}
		sb.WriteString(t)
	}
	return sb.String()
}

// anNorm projects the generic AST dump of a type into the normal form of AnnotTypes.tla (no semantics: a field mapping).
func anNorm(v interface{}) interface{} {
	m, ok := v.(map[string]interface{})
	if !ok {
		return nil
	}
	switch m["_t"] {
	case "NormalType":
		if m["StrName"] == "table" {
			return map[string]interface{}{"k": "table"}
		}
		return map[string]interface{}{"k": "name", "n": m["StrName"]}
	case "ArrayType":
		return map[string]interface{}{"k": "arr", "e": anNorm(m["ItemType"])}
	case "TableType":
		if b, _ := m["EmptyFlag"].(bool); b {
			return map[string]interface{}{"k": "table"}
		}
		return map[string]interface{}{"k": "tab", "key": anNorm(m["KeyType"]), "val": anNorm(m["ValueType"])}
	case "ConstType":
		return map[string]interface{}{"k": "const", "s": m["Name"]}
	case "FuncType":
		names, _ := m["ParamNameList"].([]interface{})
		types, _ := m["ParamTypeList"].([]interface{})
		opts, _ := m["ParamOptionList"].([]interface{})
		ps := []interface{}{}
		for i := range names {
			var t interface{}
			if i < len(types) {
				t = anNorm(types[i])
			}
			o := false
			if i < len(opts) {
				o, _ = opts[i].(bool)
			}
			ps = append(ps, map[string]interface{}{"n": names[i], "t": t, "opt": o})
		}
		rs := []interface{}{}
		if rl, ok := m["ReturnTypeList"].([]interface{}); ok {
			for _, r := range rl {
				rs = append(rs, anNorm(r))
			}
		}
		return map[string]interface{}{"k": "fun", "ps": ps, "rs": rs}
	case "MultiType":
		var ms []interface{}
		var flat func(x interface{})
		flat = func(x interface{}) {
			if mm, ok := x.(map[string]interface{}); ok && mm["_t"] == "MultiType" {
				if tl, ok := mm["TypeList"].([]interface{}); ok {
					for _, e := range tl {
						flat(e)
					}
				}
				return
			}
			ms = append(ms, anNorm(x))
		}
		flat(v)
		if len(ms) == 1 {
			return ms[0]
		}
		return map[string]interface{}{"k": "nunion", "ms": ms}
	}
	return map[string]interface{}{"k": "?", "raw": m["_t"]}
}

// anTypesOf extracts the types held by the first statement of a dump, in field order of the statement kinds.
func anTypesOf(stat map[string]interface{}) []interface{} {
	var out []interface{}
	for _, f := range []string{"ListType", "FiledType", "ParamType", "ReturnTypeList", "AliasType", "VarargType", "OverFunType"} {
		v, ok := stat[f]
		if !ok || v == nil {
			continue
		}
		if l, ok := v.([]interface{}); ok {
			for _, e := range l {
				out = append(out, anNorm(e))
			}
		} else {
			out = append(out, anNorm(v))
		}
	}
	return out
}

func canonJSON(v interface{}) string {
	b, _ := json.Marshal(v)
	var x interface{}
	json.Unmarshal(b, &x)
	b, _ = json.Marshal(x)
	return string(b)
}

type anDump struct {
	Stats  []map[string]interface{} `json:"stats"`
	Errs   []map[string]interface{} `json:"errs"`
	Prints [][]string               `json:"prints"`
}

func checkC16(c *Ctx) {
	c.Rep.Rule = "AnnotTypes.tla enumerates annotation lines of the ten documented kinds around every type term up to the level's depth (names, table, T[], table<K,V>, fun(...) with optional parameters and return lists, unions, parentheses, string constants; with and without a trailing @comment), each with the structure a reader of the documentation understands (Norm). Every line is written in two spacings and given to the real annotation parser (annotateparser.ParseCommentFragment): it must be accepted without error and the understood structure (generic dump of the Go AST, projected field by field) must equal Norm; the printed form of every understood type (TypeConvertStr) is read again and must give the same structure. A sample of lines and their single-token deletions is embedded in files for the real server: no type-18 diagnostic for documented lines, a diagnostic on the corrupted line only, neighbouring annotations and Lua diagnostics unchanged; distinct = distinct lines"
	c.Rep.Assumptions = []string{
		"the token joiner writes the documented style and a tight style; the AST projection is a field mapping without semantics",
		"a function type is not used as the first of two comma-separated types (the documented grammar is ambiguous there)",
	}
	var lines []anCase
	valid := map[string]bool{}
	st, err := c.TLC(tlc.Run{Module: "AnnotTypes", Workers: 8, Timeout: 60 * time.Minute, JavaOpts: "-Xmx8g -Xmn256m -XX:ParallelGCThreads=4",
		Cfg: fmt.Sprintf("CONSTANTS\n  Level = %q\nINIT Init\nNEXT Next\nINVARIANTS NormIdempotent NoParenInNorm Emit\nCHECK_DEADLOCK FALSE\n", c.Tier)},
		func(j json.RawMessage) {
			var a anCase
			if json.Unmarshal(j, &a) == nil {
				lines = append(lines, a)
				valid[strings.Join(a.Toks, " ")] = true
			}
		})
	if err != nil || st.ExitCode != 0 {
		c.Rep.Fatal(fmt.Sprintf("AnnotTypes.tla run failed (exit %d): %v\n%s", st.ExitCode, err, lastLines(st.Out, 12)))
		return
	}
	sort.Slice(lines, func(i, j int) bool { return strings.Join(lines[i].Toks, " ") < strings.Join(lines[j].Toks, " ") })
	c.Rep.Extra["lines_enumerated"] = len(lines)
	p := c.NewPool(0)
	// ---- (i) parser level ----
	type pcase struct {
		li      int
		variant int
		text    string
	}
	var pcs []pcase
	for i := range lines {
		pcs = append(pcs, pcase{i, 0, anJoin(lines[i].Toks, 0)}, pcase{i, 1, anJoin(lines[i].Toks, 1)})
	}
	const batch = 3000
	mkGroups := func(texts []string) [][]*proto.Case {
		var g [][]*proto.Case
		for i := 0; i < len(texts); i += batch {
			k := i + batch
			if k > len(texts) {
				k = len(texts)
			}
			g = append(g, []*proto.Case{{Op: "annot", ID: i/batch + 1, Texts: texts[i:k]}})
		}
		return g
	}
	var texts []string
	for _, pc := range pcs {
		texts = append(texts, pc.text)
	}
	type rt struct {
		li    int
		print string
		want  string
	}
	var rts []rt
	report := func(li int, text, what string, dev string) {
		raw, _ := json.Marshal(map[string]interface{}{"fam": "annot", "kind": lines[li].Kind, "toks": lines[li].Toks, "text": text})
		desc := fmt.Sprintf("annotation line %q (%s): %s", "--"+text, lines[li].Kind, what)
		if dev != "" {
			c.Rep.Deviation(dev, desc, raw)
			return
		}
		if surveyMode {
			sv.add(lines[li].Kind+" "+firstWords(what, 4), desc)
			return
		}
		c.Rep.Violation(raw, desc)
	}
	p.RunSlice(mkGroups(texts), func(pc *proto.Case, res *proto.Result) {
		base := (pc.ID - 1) * batch
		if res.Crash != "" || res.Hang {
			c.Rep.Violation(json.RawMessage(`{"fam":"annot-batch"}`), fmt.Sprintf("the annotation parser crashed or hung on a documented line (crash=%q); first line of the batch: %q", res.Crash, pc.Texts[0]))
			return
		}
		var dumps []anDump
		if json.Unmarshal(res.Parse, &dumps) != nil || len(dumps) != len(pc.Texts) {
			c.Rep.Inconclusive("annot batch returned no result")
			return
		}
		for k, d := range dumps {
			x := pcs[base+k]
			a := lines[x.li]
			c.Rep.Eval(x.text)
			if len(d.Errs) > 0 {
				report(x.li, x.text, fmt.Sprintf("rejected: %v", d.Errs[0]["str"]), "")
				continue
			}
			if len(d.Stats) != 1 {
				report(x.li, x.text, fmt.Sprintf("understood as %d statements", len(d.Stats)), "")
				continue
			}
			got := anTypesOf(d.Stats[0])
			var want []interface{}
			for _, t := range a.Types {
				var v interface{}
				json.Unmarshal(t, &v)
				want = append(want, v)
			}
			if len(want) > 0 && canonJSON(got) != canonJSON(want) {
				var wantDev []interface{}
				for _, t := range a.TypesDev {
					var v interface{}
					json.Unmarshal(t, &v)
					wantDev = append(wantDev, v)
				}
				dev := ""
				if canonJSON(got) == canonJSON(wantDev) {
					dev = "Dev_NestedArrayCollapses"
				}
				report(x.li, x.text, fmt.Sprintf("structure understood as %s, the documented structure is %s", canonJSON(got), canonJSON(want)), dev)
				continue
			}
			// statement-level facts
			sfacts := ""
			s0 := d.Stats[0]
			switch a.Kind {
			case "paramopt":
				if b, _ := s0["IsOptional"].(bool); !b {
					sfacts = "the optional marker '?' is lost"
				}
			case "class2":
				if pl, _ := s0["ParentNameList"].([]interface{}); len(pl) != 2 {
					sfacts = fmt.Sprintf("parents understood as %v", s0["ParentNameList"])
				}
			case "class1":
				if pl, _ := s0["ParentNameList"].([]interface{}); len(pl) != 1 {
					sfacts = fmt.Sprintf("parents understood as %v", s0["ParentNameList"])
				}
			case "field", "fieldvis", "fieldpub", "fieldpriv":
				sc, _ := s0["FieldScopeType"].(float64)
				if got := []string{"public", "protected", "private"}[int(sc)%3]; got != a.Vis {
					sfacts = fmt.Sprintf("visibility understood as %s, written %s", got, a.Vis)
				}
			case "generic2":
				if nl, _ := s0["NameList"].([]interface{}); len(nl) != 2 {
					sfacts = fmt.Sprintf("generic names understood as %v", s0["NameList"])
				}
			}
			if a.Subject != "" {
				if nm, _ := s0["Name"].(string); nm != a.Subject {
					sfacts += fmt.Sprintf(" declared name understood as %q, written %q", nm, a.Subject)
				}
			}
			if a.Cmt {
				if cm, _ := s0["Comment"].(string); !strings.Contains(cm, "note") {
					sfacts += fmt.Sprintf(" trailing comment understood as %q", cm)
				}
			}
			if sfacts != "" {
				report(x.li, x.text, sfacts, "")
			}
			if x.variant == 0 && k < len(d.Prints) && len(a.Types) > 0 {
				for ti, ps := range d.Prints[0] {
					if ti < len(want) {
						rts = append(rts, rt{x.li, ps, canonJSON([]interface{}{want[ti]})})
					}
				}
			}
		}
	})
	// ---- round trip: the printed form is read again ----
	var rtexts []string
	for _, r := range rts {
		rtexts = append(rtexts, "-@type "+r.print)
	}
	nrt := 0
	p.RunSlice(mkGroups(rtexts), func(pc *proto.Case, res *proto.Result) {
		base := (pc.ID - 1) * batch
		var dumps []anDump
		if res.Crash != "" || json.Unmarshal(res.Parse, &dumps) != nil || len(dumps) != len(pc.Texts) {
			c.Rep.Inconclusive("round-trip batch failed: " + res.Crash)
			return
		}
		for k, d := range dumps {
			r := rts[base+k]
			a := lines[r.li]
			nrt++
			got := ""
			if len(d.Errs) == 0 && len(d.Stats) == 1 {
				got = canonJSON(anTypesOf(d.Stats[0]))
			}
			if got == r.want {
				continue
			}
			what := fmt.Sprintf("the understood type prints as %q, which reads back as %s instead of %s", r.print, got, r.want)
			dev := ""
			if a.Fun {
				dev = "Dev_PrinterFunKeyword"
			} else if a.Paren {
				dev = "Dev_PrinterDropsParens"
			} else if a.Const {
				dev = "Dev_PrinterDropsQuotes"
			}
			report(r.li, anJoin(a.Toks, 0), what, dev)
		}
	})
	c.Rep.Extra["round_trips"] = nrt
	// ---- (ii) server level: documented lines and their corruptions in files ----
	type scase struct {
		li      int
		text    string
		corrupt bool
		stray   bool // a stray quote was appended: a warning on that line is allowed, not required (trailing text is a comment)
	}
	var scs []scase
	per := len(lines)/400 + 1
	if c.Thorough() {
		per = len(lines)/4000 + 1
	}
	for i := range lines {
		if i%per != int(c.Seed)%per {
			continue
		}
		a := lines[i]
		scs = append(scs, scase{i, anJoin(a.Toks, 0), false, false})
		if !a.Cmt {
			// a stray quote at the end of the line (an unterminated string constant) is malformed whatever precedes it
			scs = append(scs, scase{i, anJoin(a.Toks, 0) + " | '", false, true}, scase{i, anJoin(a.Toks, 0) + " \"", false, true})
		}
		for d := 1; d < len(a.Toks); d++ {
			m := append(append([]string{}, a.Toks[:d]...), a.Toks[d+1:]...)
			if valid[strings.Join(m, " ")] || len(m) < 2 {
				continue
			}
			// a deleted token can leave a line that is still documented syntax of another shape; only lines that the
			// enumerated language does not contain and that end abruptly are used
			last := m[len(m)-1]
			if last == "," || last == "|" || last == ":" || last == "(" || last == "<" || last == "[" {
				scs = append(scs, scase{i, anJoin(m, 0), true, false})
			}
		}
	}
	// every file ends with a comment block that declares a class and an alias together, and a use of the alias: the
	// neighbours in one block must not disturb each other
	const sameBlock = "---@class CC\n---@field fc number\n---@alias AliasK number\n\n---@type AliasK\nlocal ak = 1\nprint(ak)\n"
	var sgroups [][]*proto.Case
	for i, s := range scs {
		// every second file has a statement with a trailing comment directly above the annotation line: the comment block
		// that starts on the next line is a block of its own
		off := preOff(s.text)
		pre := ""
		if off == 1 {
			pre = "local pre0 = 0 -- a remark\n"
		}
		body := "---@class CA\n---@field fa number\n\n---@class CB\n---@field fb number\n\n" + pre + "--" + s.text + "\nlocal subj = nil\n---@type CA\nlocal nb = {}\nlocal unusedloc = 1\nprint(subj, nb.fa, pre0)\n" + sameBlock
		defLine, defCol := 11+off, 15
		if s.corrupt {
			// a malformed line sits inside a comment block: the annotation lines after it in the same block still count
			body = "---@class CA\n---@field fa number\n\n---@class CB\n---@field fb number\n\n" + pre + "--" + s.text + "\n---@class CZ\n---@field zf number\n---@type CZ\nlocal nb = {}\nlocal unusedloc = 1\nprint(nb.zf, pre0)\n" + sameBlock
			defLine, defCol = 12+off, 9
		}
		if off == 0 {
			body = strings.Replace(body, ", pre0)", ")", 1)
		}
		pc := &proto.Case{ID: i + 1, Files: map[string]string{"f.lua": body}, Init: json.RawMessage(allOnLocal)}
		pc.Steps = append(pc.Steps, openStep("f.lua", body), proto.Step{M: "textDocument/definition", P: posParams("f.lua", defLine, defCol)})
		sgroups = append(sgroups, []*proto.Case{pc})
	}
	p2 := c.NewPool(0)
	p2.BaseDir += "s"
	p2.RunSlice(sgroups, func(pc *proto.Case, res *proto.Result) {
		s := scs[pc.ID-1]
		if res.Crash != "" || res.Hang {
			report(s.li, s.text, fmt.Sprintf("the server crashed or hung on a file containing this line (crash=%q)", res.Crash), "")
			return
		}
		view := map[string][]diag{}
		foldDiags(res.Root, view, res.InitNtfs)
		for i := range res.Steps {
			foldDiags(res.Root, view, res.Steps[i].Ntfs)
		}
		var t18 []int
		other := []string{}
		for _, x := range view["f.lua"] {
			if x.Type == 18 {
				t18 = append(t18, x.SL)
			} else {
				other = append(other, fmt.Sprintf("%d@%d", x.Type, x.SL))
			}
		}
		sort.Strings(other)
		locs, _ := projLocs(res.Root, res.Steps[1].Reply)
		neighbourOK := len(locs) == 1 && locs[0].SL == 1 // nb.fa -> the ---@field fa line
		off := preOff(s.text)
		unusedAt := fmt.Sprintf("4@%d", 10+off)
		if s.corrupt {
			neighbourOK = len(locs) == 1 && locs[0].SL == 8+off // nb.zf -> the ---@field zf line of the same comment block
			unusedAt = fmt.Sprintf("4@%d", 11+off)
		}
		var prob []string
		if s.stray {
			for _, l := range t18 {
				if l != 6+off {
					prob = append(prob, fmt.Sprintf("a warning for the line with the stray quote is reported on line %d", l))
				}
			}
		} else if !s.corrupt && len(t18) > 0 {
			prob = append(prob, fmt.Sprintf("a documented line gets an annotation warning (lines %v)", t18))
		}
		if s.corrupt {
			if len(t18) == 0 {
				if strings.HasSuffix(s.text, "[") && neighbourOK && strings.Join(other, " ") == unusedAt {
					// as-built: an unclosed trailing '[' after a type is ignored silently
					report(s.li, s.text, "embedded in a file: a malformed line (unclosed '[') yields no annotation warning", "Dev_TrailingBracketIgnored")
					return
				}
				prob = append(prob, "a malformed line yields no annotation warning")
			}
			for _, l := range t18 {
				if l != 6+off {
					prob = append(prob, fmt.Sprintf("the warning for the malformed line is reported on line %d", l))
				}
			}
		}
		if !neighbourOK {
			prob = append(prob, fmt.Sprintf("the neighbouring annotation no longer takes effect (definition of the neighbour member -> %v)", locs))
		}
		if strings.Join(other, " ") != unusedAt {
			prob = append(prob, fmt.Sprintf("the Lua diagnostics of the file changed: %v (expected only the unused local, %s)", other, unusedAt))
		}
		if len(prob) > 0 {
			report(s.li, s.text, "embedded in a file: "+strings.Join(prob, "; "), "")
		}
		c.Rep.Eval("srv:" + s.text)
	})
	c.Rep.Traces = int64(len(scs))
	c.Rep.Extra["lines_in_server_files"] = len(scs)
	c.Rep.Exhaustive = true
	c.poolStats(p)
	if surveyMode {
		sv.dump()
	}
}

// preOff: 1 when the file of this line has a statement with a trailing comment directly above the line (a seeded half).
func preOff(text string) int { return int(hash64(text, 29) % 2) }
