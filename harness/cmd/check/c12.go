package main

import (
	"bytes"
	"encoding/json"
	"fmt"
	"os"
	"regexp"
	"strings"
	"time"

	"verifharness/internal/proto"
	"verifharness/internal/tlc"
)

func init() { registry["C12"] = checkC12 }

type tpos struct {
	F string `json:"f"`
	L int    `json:"l"`
	C int    `json:"c"`
}

type c12Row struct {
	P        tpos   `json:"p"`
	Name     string `json:"name"`
	Def      []tpos `json:"def"`
	Refs     []tpos `json:"refs"`
	Hl       []tpos `json:"hl"`
	HName    string `json:"hname"`
	HLocal   bool   `json:"hlocal"`
	HasDef   bool   `json:"hasdef"`
	DefLocal bool   `json:"deflocal"`
	DefKnown bool   `json:"defknown"`
}

type c12Table struct {
	ID   int      `json:"id"`
	Rows []c12Row `json:"rows"`
}

type c12Data struct {
	tc   *scCase
	r    *scRender
	step [][4]int // per occurrence: step index of definition, references, highlight, hover
}

// c12Members: also probe the member names of method definitions and member reads (off: the member dimension is the
// subject of Modules.tla).
var c12Members = false

func c12Build(id int, raw json.RawMessage) *Job {
	var tc scCase
	if json.Unmarshal(raw, &tc) != nil {
		return nil
	}
	for i := range tc.Items {
		if it := &tc.Items[i]; it.K == "meth" && it.Mi > 0 && c12Members {
			it.MName = fmt.Sprintf("mm%d", it.Mi)
		}
	}
	r := scRenderMode(tc.Items, scModeOf(raw, scSeed))
	return c12JobFor(id, r, &tc)
}

// c12JobFor asks the four questions at every recorded occurrence of a rendered workspace.
func c12JobFor(id int, r *scRender, tc *scCase) *Job {
	pc := &proto.Case{ID: id, Files: r.files(), Init: json.RawMessage(allOnLocal)}
	nonEmpty := 0
	for _, t := range r.Text {
		if strings.TrimSpace(t) != "" {
			nonEmpty++
		}
	}
	if nonEmpty == 1 && strings.TrimSpace(r.Text[0]) != "" && hash64(strings.Join(r.Text, "\x00"), scSeed)%3 == 0 {
		// every third single-file workspace names its file as project entry: the project pass then analyses it a second
		// way (workspaces in which only some files belong to the project are left out: which globals a project file sees
		// across the project boundary is not settled by the statement)
		pc.Files["luahelper.json"] = fmt.Sprintf(`{"ShowWarnFlag":1,"ProjectFiles":[%q]}`, r.Files[0])
	}
	scOpenSteps(pc, r)
	d := &c12Data{tc: tc, r: r}
	for _, o := range r.Occ {
		var st [4]int
		f := r.Files[o.File]
		pc.Steps = append(pc.Steps, proto.Step{M: "textDocument/definition", P: posParams(f, o.Line, o.Col)})
		st[0] = len(pc.Steps) - 1
		pc.Steps = append(pc.Steps, proto.Step{M: "textDocument/references", P: refParams(f, o.Line, o.Col)})
		st[1] = len(pc.Steps) - 1
		pc.Steps = append(pc.Steps, proto.Step{M: "textDocument/documentHighlight", P: posParams(f, o.Line, o.Col)})
		st[2] = len(pc.Steps) - 1
		pc.Steps = append(pc.Steps, proto.Step{M: "textDocument/hover", P: posParams(f, o.Line, o.Col)})
		st[3] = len(pc.Steps) - 1
		d.step = append(d.step, st)
	}
	return &Job{PC: pc, Data: d}
}

// c12ModBuild: the same questions over a Modules.tla workspace (table variables and member names).
func c12ModBuild(id int, raw json.RawMessage) *Job {
	var tc modCase
	if json.Unmarshal(raw, &tc) != nil || len(tc.Files) == 0 {
		return nil
	}
	return c12JobFor(id, modRender(&tc, modOneLine(raw, scSeed)), nil)
}

func locsToPos(ls []lspLoc) []tpos {
	r := []tpos{}
	for _, l := range ls {
		r = append(r, tpos{l.File, l.SL, l.SC})
	}
	return r
}

var reHoverHead = regexp.MustCompile("^```lua\n([^\n]*)")
var reIdent = regexp.MustCompile(`[A-Za-z_][A-Za-z_0-9]*`)

// parseHover extracts (presented name, presented as local) from the hover markdown's first code line.
func parseHover(reply json.RawMessage) (name string, local bool, ok bool) {
	if len(reply) == 0 || string(reply) == "null" {
		return "", false, false
	}
	var h struct {
		Contents struct {
			Value string `json:"value"`
		} `json:"contents"`
	}
	if json.Unmarshal(reply, &h) != nil {
		return "", false, false
	}
	m := reHoverHead.FindStringSubmatch(h.Contents.Value)
	if m == nil {
		return "", false, false
	}
	line := m[1]
	if strings.HasPrefix(line, "local ") {
		local = true
		line = strings.TrimPrefix(line, "local ")
	}
	line = strings.TrimPrefix(line, "function ")
	name = reIdent.FindString(line)
	return name, local, true
}

// hoverMentions reports whether the hover's first code line contains name as an identifier.
func hoverMentions(reply json.RawMessage, name string) bool {
	var h struct {
		Contents struct {
			Value string `json:"value"`
		} `json:"contents"`
	}
	if json.Unmarshal(reply, &h) != nil {
		return false
	}
	m := reHoverHead.FindStringSubmatch(h.Contents.Value)
	if m == nil {
		return false
	}
	for _, id := range reIdent.FindAllString(m[1], -1) {
		if id == name {
			return true
		}
	}
	return false
}

func hlToPos(file string, reply json.RawMessage) []tpos {
	r := []tpos{}
	var hl []struct {
		Range struct {
			Start struct{ Line, Character int } `json:"start"`
		} `json:"range"`
	}
	if json.Unmarshal(reply, &hl) == nil {
		for _, h := range hl {
			r = append(r, tpos{file, h.Range.Start.Line, h.Range.Start.Character})
		}
	}
	return r
}

type c12Pending struct {
	j *Job
}

func checkC12(c *Ctx) {
	c.Rep.Rule = "for every identifier position of every Scope.tla program (exhaustive to the item bound, simulated beyond) the real server's definition, references, highlight and hover answers are recorded into a table; TLC evaluates the four relations of Consistency.tla on every table; distinct = distinct programs"
	c.Rep.Assumptions = []string{
		"hover's first code line is read as: optional 'local ', optional 'function ', then the presented name",
		"whether the definition is a local declaration is taken from the renderer's record of what kind of declaration sits at the returned position",
		"no external oracle: a position breaks the property only through disagreement between the server's own answers",
	}
	p := c.NewPool(0)
	var batch []c12Table
	tablesN := 0
	pend := map[int]*Job{}
	tables := map[int]*c12Table{}
	flush := func() bool {
		if len(batch) == 0 {
			return true
		}
		var buf bytes.Buffer
		for _, t := range batch {
			b, _ := json.Marshal(t)
			buf.Write(b)
			buf.WriteByte('\n')
		}
		n := len(batch)
		st, err := c.TLC(tlc.Run{Module: "Consistency", Workers: 1, Timeout: 20 * time.Minute,
			Files: map[string][]byte{"answers.ndjson": buf.Bytes()},
			Cfg:   "INIT Init\nNEXT Next\nINVARIANTS Report Sane\nCHECK_DEADLOCK FALSE\n"}, func(j json.RawMessage) {
			var o struct {
				ID     int `json:"id"`
				Broken []struct {
					P   tpos     `json:"p"`
					Rel []string `json:"rel"`
				} `json:"broken"`
			}
			if json.Unmarshal(j, &o) != nil {
				return
			}
			jb := pend[o.ID]
			if jb == nil {
				return
			}
			d := jb.Data.(*c12Data)
			for _, b := range o.Broken {
				oc := d.r.occAt(b.P.F, b.P.L, b.P.C)
				desc := fmt.Sprintf("at %s:%d:%d the server's own answers break relation(s) %v of C12\n%s", b.P.F, b.P.L, b.P.C, b.Rel, progText(d.r))
				// a relation at p also breaks when one of the positions it relates p to (its references, its definition)
				// is an occurrence for which TLC predicts a deviating definition answer
				devs := map[string]bool{}
				if oc != nil {
					for dev := range oc.Alt {
						devs[dev] = true
					}
				}
				for _, t := range tables[o.ID].Rows {
					if t.P == b.P {
						for _, x := range append(append([]tpos{}, t.Refs...), t.Def...) {
							if xo := d.r.occAt(x.F, x.L, x.C); xo != nil {
								for dev := range xo.Alt {
									devs[dev] = true
								}
							}
						}
					}
				}
				if len(devs) > 0 {
					for dev := range devs {
						if surveyMode {
							sv.add("DEV "+dev+fmt.Sprint(b.Rel), desc)
						}
						c.Rep.Deviation(dev, desc, jb.Raw)
					}
					continue
				}
				if d.tc != nil && methOnRequired(d.tc) {
					// a member function defined through a local that holds require(..): once a file does that, the answers
					// about names reached through that variable come apart (known finding of the Modules.tla family; in
					// Scope.tla programs it appears only in deep simulated ones and is attributed by this program-level test)
					if surveyMode {
						sv.add("DEV Dev_MemberDefinedThroughRequireUnreferenced (scope program)", desc)
					}
					c.Rep.Deviation("Dev_MemberDefinedThroughRequireUnreferenced", desc, jb.Raw)
					continue
				}
				if surveyMode {
					k := ""
					if oc != nil && d.tc != nil {
						k = d.tc.Items[oc.Item].K + "/" + oc.Slot + "/" + oc.Role
					} else if oc != nil {
						k = "modules/" + oc.Slot + "/" + oc.Role + "/" + oc.Kind
					}
					sv.add(fmt.Sprintf("%v %s", b.Rel, k), desc)
					continue
				}
				c.Rep.Violation(jb.Raw, desc)
			}
		})
		if err != nil || st.ExitCode != 0 {
			c.Rep.Fatal(fmt.Sprintf("Consistency.tla evaluation failed: %v exit=%d\n%s", err, st.ExitCode, lastLines(st.Out, 12)))
			return false
		}
		c.Rep.Extra["tables_evaluated_by_tlc"] = tablesN + n
		tablesN += n
		batch = nil
		pend = map[int]*Job{}
		tables = map[int]*c12Table{}
		return true
	}
	okAll := true
	judge := func(j *Job, res *proto.Result) {
		d := j.Data.(*c12Data)
		c.Rep.Eval(string(j.Raw))
		if res.Crash != "" || res.Hang {
			c.Rep.Violation(j.Raw, fmt.Sprintf("server died or hung (crash=%q hang=%v) on program:\n%s", res.Crash, res.Hang, progText(d.r)))
			return
		}
		t := c12Table{ID: j.PC.ID}
		toks := modTokens(d.r)
		edited := false
		for _, s := range j.PC.Steps {
			if s.M == "textDocument/didChange" {
				edited = true
			}
		}
		for k := range d.r.Occ {
			o := &d.r.Occ[k]
			st := d.step[k]
			row := c12Row{P: tpos{d.r.Files[o.File], o.Line, o.Col}, Name: o.Name}
			dl, _ := projLocs(res.Root, res.Steps[st[0]].Reply)
			row.Def = locsToPos(dl)
			row.HasDef = len(dl) > 0
			if o.Role == "mdef" || o.Role == "muse" {
				// a member without definition: go-to-definition falls back to the table it is read from. That answer is
				// not a declaration of the member (it designates an identifier spelled differently), so for the relations
				// the member has no declaration.
				var own []lspLoc
				for _, l := range dl {
					if toks[fmt.Sprintf("%s:%d:%d", l.File, l.SL, l.SC)] == o.Name {
						own = append(own, l)
					}
				}
				dl = own
				row.Def = locsToPos(dl)
				row.HasDef = len(dl) > 0
			}
			if len(dl) == 1 {
				if do := d.r.occAt(dl[0].File, dl[0].SL, dl[0].SC); do != nil {
					row.DefKnown = true
					row.DefLocal = do.Role == "decl"
				}
			}
			rl, _ := projLocs(res.Root, res.Steps[st[1]].Reply)
			row.Refs = locsToPos(rl)
			row.Hl = hlToPos(d.r.Files[o.File], res.Steps[st[2]].Reply)
			if edited && string(res.Steps[st[2]].Reply) == "null" {
				// for three seconds after a didChange the server answers no highlight request at all (a deliberate
				// throttle, lsp_server.go isCanHighlight): R3 has nothing to relate then
				row.Hl = []tpos{}
				for _, x := range row.Refs {
					if x.F == row.P.F {
						row.Hl = append(row.Hl, x)
					}
				}
			}
			row.HName, row.HLocal, _ = parseHover(res.Steps[st[3]].Reply)
			if o.Role == "mdef" || o.Role == "muse" {
				// a member is presented under its qualified name (t.f); whether a member of a local table "is a local" is left open
				if hoverMentions(res.Steps[st[3]].Reply, o.Name) {
					row.HName = o.Name
				}
				row.DefKnown = false
			}
			t.Rows = append(t.Rows, row)
		}
		if len(t.Rows) == 0 {
			return
		}
		batch = append(batch, t)
		pend[j.PC.ID] = j
		tt := t
		tables[j.PC.ID] = &tt
		if len(batch) >= 4000 {
			if !flush() {
				okAll = false
			}
		}
	}
	if c.Replay != "" {
		raw, err := loadReplayCase(c.Replay)
		if err != nil {
			c.Rep.Fatal(err.Error())
			return
		}
		if projReplay(c, raw, "hover") {
			return
		}
		jb := c12Build(1, raw)
		jb.Raw = raw
		p1 := c.NewPool(1)
		p1.RunSlice([][]*proto.Case{{jb.PC}}, func(_ *proto.Case, r *proto.Result) { judge(jb, r) })
		flush()
		c.Rep.Sample(map[string]interface{}{"replayed": raw}, 1)
		return
	}
	scAvoid = `{"hide","selfw","gshallow"}`
	scLight = true
	scKinds = `{"local","local2","use","assign","assign2","do","while","if","repeat","fornum","forin","lfunc","lefunc","gfunc","meth","cfunc","iassign","guse","file","ret","require"}`
	scCoreKinds = `{"local","use","assign","assign2","do","repeat","fornum","lfunc","lefunc","gfunc","ret"}`
	c.Rep.Assumptions = append(c.Rep.Assumptions, "generated domain as in C06 (Scope.tla Avoid = {hide, selfw, gshallow})")
	if os.Getenv("VERIF_ONLY") != "modules" { // (development aid: survey one family at a time)
		scopeRuns(c, p, c12Build, judge)
		flush()
	}
	// the member dimension: Modules.tla workspaces (tables, member functions and fields, require/return)
	modOneGlobal = "TRUE"
	modulesRuns(c, p, c12ModBuild, judge)
	flush()
	_ = okAll
	wideGlobal(c, p, "C12", func(want, refs1, refs2, ren []string, defs map[string][]string, raw json.RawMessage) {
		// R1/R2 on the wide workspace: the use asked about is among the references, both questions give the same set,
		// and go-to-definition at uses in three files leads to the declaration that the references contain
		var prob []string
		if strings.Join(refs1, " ") != strings.Join(refs2, " ") {
			prob = append(prob, fmt.Sprintf("references asked at the declaration (%d) and at a use (%d) differ", len(refs1), len(refs2)))
		}
		has := map[string]bool{}
		for _, x := range refs2 {
			has[x] = true
		}
		if !has["def.lua:1:6"] {
			prob = append(prob, "the use asked about is not among its own references")
		}
		for f, d := range defs {
			if len(d) != 1 || d[0] != "def.lua:0:0" {
				prob = append(prob, fmt.Sprintf("definition at the use in %s answers %v", f, d))
			}
			found := false
			for x := range has {
				if strings.HasPrefix(x, f+":1:") {
					found = true
				}
			}
			if !found {
				prob = append(prob, fmt.Sprintf("the use in %s resolves to the declaration but is not among the declaration's references", f))
			}
		}
		if len(prob) > 0 {
			c.Rep.Violation(raw, "a global defined in def.lua and used in 27 further files (one created after start-up): "+strings.Join(prob, "; "))
		}
	})
	// Project.tla: workspaces analysed as a project (entry file + what it requires), both modes
	projectRuns(c, p, 0, "hover")
	c.poolStats(p)
	if surveyMode {
		sv.dump()
	}
}


// methOnRequired: the program defines a member function on a local that holds require(..).
func methOnRequired(tc *scCase) bool {
	req := map[int]bool{}
	for _, it := range tc.Items {
		if it.K == "require" {
			req[it.ID] = true
		}
	}
	for _, it := range tc.Items {
		if it.K == "meth" && it.Tb != 0 && req[it.Tb] {
			return true
		}
	}
	return false
}
