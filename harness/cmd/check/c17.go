package main

import (
	"bytes"
	"encoding/json"
	"fmt"
	"os"
	"path/filepath"
	"sort"
	"strings"
	"time"

	"verifharness/internal/proto"
	"verifharness/internal/tlc"
)

func init() { registry["C17"] = checkC17 }

// flag names of the client settings in positional order: index i is the switch of diagnostic type i
// (index 0 = master switch). This is the documented table; the server's getCheckFlagList /
// getWarnCheckList must agree with it (binding B3 is implicit: a shifted table silences the wrong type).
var cfgFlagNames = []string{"AllEnable", "CheckSyntax", "CheckNoDefine", "CheckAfterDefine", "CheckLocalNoUse", "CheckTableDuplicateKey",
	"CheckReferNoFile", "CheckAssignParamNum", "CheckLocalDefineParamNum", "CheckGotoLable", "CheckFuncParam", "CheckImportModuleVar",
	"CheckIfNotVar", "CheckFunctionDuplicateParam", "CheckBinaryExpressionDuplicate", "CheckErrorOrAlwaysTrue", "CheckErrorAndAlwaysFalse",
	"CheckNoUseAssign", "CheckAnnotateType", "CheckDuplicateIf", "CheckSelfAssign", "CheckFloatEq", "CheckClassField", "CheckConstAssign",
	"CheckFuncParamType", "CheckFuncReturnType"}

type cfgAbs struct {
	Src    string   `json:"src"`
	Master bool     `json:"master"`
	Off    []int    `json:"off"`
	Err    []string `json:"err"`
	Ana    []string `json:"ana"`
	Ftype  []struct {
		R string `json:"r"`
		T int    `json:"t"`
	} `json:"ftype"`
	Prev []cfgAbs `json:"prev"`
}

func (c *cfgAbs) flagObject(extra map[string]interface{}) map[string]interface{} {
	m := map[string]interface{}{}
	off := map[int]bool{}
	for _, t := range c.Off {
		off[t] = true
	}
	for i, n := range cfgFlagNames {
		if i == 0 {
			m[n] = c.Master
		} else {
			m[n] = !off[i]
		}
	}
	for k, v := range extra {
		m[k] = v
	}
	return m
}

func strs(s []string) []string {
	if s == nil {
		return []string{}
	}
	return s
}

func (c *cfgAbs) changeStep() proto.Step {
	warn := c.flagObject(nil)
	base := map[string]interface{}{"IgnoreFileOrDir": strs(c.Ana), "IgnoreFileOrDirError": strs(c.Err), "ReferenceMaxNum": 3000, "ReferenceIncudeDefine": true, "PreviewFieldsNum": 30}
	p, _ := json.Marshal(map[string]interface{}{"settings": map[string]interface{}{"luahelper": map[string]interface{}{"base": base, "Warn": warn}}})
	return proto.Step{M: "workspace/didChangeConfiguration", N: true, P: p}
}

func cfgWorkspace(root string) (map[string]string, error) {
	files := map[string]string{}
	base := filepath.Join(root, "workspaces", "cfgws")
	err := filepath.Walk(base, func(p string, info os.FileInfo, err error) error {
		if err != nil || info.IsDir() {
			return err
		}
		b, e := os.ReadFile(p)
		if e != nil {
			return e
		}
		rel, _ := filepath.Rel(base, p)
		files[rel] = string(b)
		return nil
	})
	return files, err
}

type cfgRun struct {
	abs   cfgAbs
	raw   json.RawMessage
	shown []map[string]interface{}
	dead  string
}

func checkC17(c *Ctx) {
	c.Rep.Rule = "Config.tla enumerates configurations (every single switch, pairs, the master switch, the special-check group, ignore-rule subsets, per-file type rules, change-after-change sequences) for the three sources; each runs on a fresh real server over a fixed workspace that triggers diagnostic types 1-10 and 12-21; ConfigEval.tla evaluates shown = {d in all-enabled : not Excluded(cfg, d)} on every logged run (TLC decides); malformed settings are sent as well and must not take the server down"
	c.Rep.Assumptions = []string{
		"the all-enabled baseline is taken per source (init / change / json) from the real server, as the statement is implementation-relative",
		"ignore rules are matched by their documented meaning on this workspace (Matches table in Config.tla)",
		"VS Code's priming didChangeConfiguration is sent before any real settings change (the server swallows the first one)",
	}
	files, err := cfgWorkspace(c.Root)
	if err != nil || len(files) == 0 {
		c.Rep.Fatal("cannot read workspaces/cfgws: " + fmt.Sprint(err))
		return
	}
	p := c.NewPool(0)
	var runs []*cfgRun
	build := func(id int, raw json.RawMessage) *Job {
		var a cfgAbs
		if json.Unmarshal(raw, &a) != nil {
			return nil
		}
		pc := &proto.Case{ID: id, Files: map[string]string{}}
		for k, v := range files {
			pc.Files[k] = v
		}
		switch a.Src {
		case "init":
			init := a.flagObject(map[string]interface{}{"client": "vsc", "LocalRun": true, "IgnoreFileOrDir": strs(a.Ana), "IgnoreFileOrDirError": strs(a.Err)})
			pc.Init, _ = json.Marshal(init)
		case "change":
			pc.Init = json.RawMessage(allOnLocal)
			for _, q := range a.Prev {
				pc.Steps = append(pc.Steps, q.changeStep())
			}
			pc.Steps = append(pc.Steps, a.changeStep())
		case "json":
			pc.Init = json.RawMessage(allOnLocal)
			sw := 0
			if a.Master {
				sw = 1
			}
			var ft []map[string]interface{}
			for _, x := range a.Ftype {
				ft = append(ft, map[string]interface{}{"File": x.R, "Types": []int{x.T}})
			}
			off := a.Off
			if off == nil {
				off = []int{}
			}
			jc, _ := json.MarshalIndent(map[string]interface{}{"BaseDir": "./", "ShowWarnFlag": sw, "IgnoreErrorTypes": off,
				"IgnoreFileErr": strs(a.Err), "IgnoreFileOrFloder": strs(a.Ana), "IgnoreFileErrTypes": ft}, "", " ")
			pc.Files["luahelper.json"] = string(jc)
		}
		// after the configuration is in force the editor opens every file, and the watcher reports every file as changed
		// and (seeded, one file) saved: the gate that file events pass is the same rule set, so nothing may (re)appear
		var names []string
		for k := range files {
			if strings.HasSuffix(k, ".lua") {
				names = append(names, k)
			}
		}
		sort.Strings(names)
		var evs []string
		for _, k := range names {
			pc.Steps = append(pc.Steps, openStep(k, files[k]))
			evs = append(evs, fmt.Sprintf(`{"uri":"file://$ROOT/%s","type":2}`, k))
		}
		// one of the files really changed on disk (a further undefined name at its end): its event comes last in the batch,
		// after the events of files that a rule may ignore
		late := files["main.lua"] + "print(undef_late)\n"
		pc.Steps = append(pc.Steps, proto.Step{M: "fs.write", Path: "main.lua", Text: late})
		pc.Steps = append(pc.Steps, proto.Step{M: "workspace/didChangeWatchedFiles", N: true, P: json.RawMessage(`{"changes":[` + strings.Join(evs, ",") + `]}`)})
		sv := names[int(hash64(string(raw), c.Seed)%uint64(len(names)))]
		svText := files[sv]
		if sv == "main.lua" {
			svText = late
		}
		pc.Steps = append(pc.Steps, proto.Step{M: "textDocument/didSave", N: true, P: json.RawMessage(fmt.Sprintf(`{"textDocument":{"uri":"file://$ROOT/%s"},"text":%s}`, sv, jstr(svText)))},
			proto.Step{M: "textDocument/hover", P: posParams("main.lua", 0, 7)})
		r := &cfgRun{abs: a, raw: raw}
		return &Job{PC: pc, Data: r}
	}
	judge := func(j *Job, res *proto.Result) {
		r := j.Data.(*cfgRun)
		c.Rep.Eval(string(j.Raw))
		if res.Crash != "" || res.Hang {
			c.Rep.Violation(j.Raw, fmt.Sprintf("server died or hung under configuration %s (crash=%q hang=%v)", j.Raw, res.Crash, res.Hang))
			return
		}
		view := map[string][]diag{}
		foldDiags(res.Root, view, res.InitNtfs)
		for i := range res.Steps {
			foldDiags(res.Root, view, res.Steps[i].Ntfs)
		}
		r.shown = []map[string]interface{}{}
		for f, ds := range view {
			for _, x := range ds {
				r.shown = append(r.shown, map[string]interface{}{"f": f, "t": x.Type, "k": fmt.Sprintf("%d:%d %s", x.SL, x.SC, strings.ReplaceAll(x.Msg, res.Root, "$ROOT"))})
			}
		}
		sort.Slice(r.shown, func(a, b int) bool { return fmt.Sprint(r.shown[a]) < fmt.Sprint(r.shown[b]) })
		runs = append(runs, r)
	}
	var flist []string
	for f := range files {
		flist = append(flist, fmt.Sprintf("%q", f))
	}
	sort.Strings(flist)
	consts := fmt.Sprintf("CONSTANTS\n  Types = {1,2,3,4,5,6,7,8,9,10,11,12,13,14,15,16,17,18,19,20,21,22,23,24,25}\n  Files = {%s}\n  Rules = {\"alpha/one.lua\",\"tests/\",\"beta/th.*lua\",\"alpha/\",\"c++/\"}\n  Level = %q\n", strings.Join(flist, ","), c.Tier)
	if !c.streamRun("configs", tlc.Run{Module: "Config", Workers: 4, Timeout: 20 * time.Minute,
		Cfg: consts + "INIT Init\nNEXT Next\nINVARIANTS Homomorphic Monotone Emit\nCHECK_DEADLOCK FALSE\n"}, p, 4, build, judge) {
		return
	}
	// baselines per source = the all-enabled run of that source
	base := map[string][]map[string]interface{}{}
	for _, r := range runs {
		a := r.abs
		if a.Master && len(a.Off) == 0 && len(a.Err) == 0 && len(a.Ana) == 0 && len(a.Ftype) == 0 && len(a.Prev) == 0 {
			base[a.Src] = r.shown
		}
	}
	for _, s := range []string{"init", "change", "json"} {
		if base[s] == nil {
			c.Rep.Fatal("no all-enabled baseline run for source " + s)
			return
		}
	}
	types := map[int]bool{}
	for _, d := range base["init"] {
		types[d["t"].(int)] = true
	}
	var tl []int
	for t := range types {
		tl = append(tl, t)
	}
	sort.Ints(tl)
	c.Rep.Extra["types_triggered_by_workspace"] = tl
	// the three sources must show the same all-enabled diagnostics
	for _, s := range []string{"change", "json"} {
		a, _ := json.Marshal(base["init"])
		b, _ := json.Marshal(base[s])
		if string(a) != string(b) {
			desc := fmt.Sprintf("the all-enabled diagnostics differ between sources init and %s: init=%s %s=%s", s, a, s, b)
			if surveyMode {
				sv.add("baseline differs "+s, desc)
			} else {
				c.Rep.Violation(json.RawMessage(`"baseline"`), desc)
			}
		}
	}
	var buf bytes.Buffer
	byID := map[int]*cfgRun{}
	for i, r := range runs {
		byID[i+1] = r
		a := r.abs
		if a.Off == nil {
			a.Off = []int{}
		}
		a.Err, a.Ana = strs(a.Err), strs(a.Ana)
		cfgj := map[string]interface{}{"src": a.Src, "master": a.Master, "off": a.Off, "err": a.Err, "ana": a.Ana, "ftype": a.Ftype}
		if a.Ftype == nil {
			cfgj["ftype"] = []int{}
		}
		b, _ := json.Marshal(map[string]interface{}{"id": i + 1, "cfg": cfgj, "base": base[a.Src], "shown": r.shown})
		buf.Write(b)
		buf.WriteByte('\n')
	}
	st, err := c.TLC(tlc.Run{Module: "ConfigEval", Workers: 1, Timeout: 20 * time.Minute,
		Files: map[string][]byte{"runs.ndjson": buf.Bytes()},
		Cfg:   consts + "INIT EInit\nNEXT ENext\nINVARIANTS Report\nCHECK_DEADLOCK FALSE\n"},
		func(jr json.RawMessage) {
			var o struct {
				ID      int                      `json:"id"`
				Extra   []map[string]interface{} `json:"extra"`
				Missing []map[string]interface{} `json:"missing"`
				Devs    []string                 `json:"devs"`
			}
			if json.Unmarshal(jr, &o) != nil {
				return
			}
			r := byID[o.ID]
			if r == nil {
				return
			}
			desc := fmt.Sprintf("under configuration %s the shown diagnostics are not the all-enabled ones minus the excluded ones: shown although excluded %v; missing although not excluded %v", r.raw, o.Extra, o.Missing)
			devName := map[string]string{"t17": "Dev_Type4OffDropsType17", "goto": "Dev_SpecialGateDropsGoto", "anaregex": "Dev_AnalysisIgnoreRegexNeedsLuaSuffix"}
			if len(o.Devs) > 0 {
				for _, dv := range o.Devs {
					c.Rep.Deviation(devName[dv], desc, r.raw)
				}
				return
			}
			if surveyMode {
				sv.add(fmt.Sprintf("src=%s extra=%d missing=%d", r.abs.Src, len(o.Extra), len(o.Missing)), desc)
				return
			}
			c.Rep.Violation(r.raw, desc)
		})
	if err != nil || st.ExitCode != 0 || st.Depth != len(runs) {
		c.Rep.Fatal(fmt.Sprintf("ConfigEval.tla did not evaluate all runs (depth %d of %d, exit %d): %v\n%s", st.Depth, len(runs), st.ExitCode, err, lastLines(st.Out, 12)))
		return
	}
	c.Rep.Extra["runs_evaluated_by_tlc"] = len(runs)
	// ---- malformed settings must be rejected or ignored without taking the server down ----
	var mal [][]*proto.Case
	malDesc := map[int]string{}
	addMal := func(desc string, pc *proto.Case) {
		pc.ID = len(mal) + 1
		for k, v := range files {
			if _, ok := pc.Files[k]; !ok {
				pc.Files[k] = v
			}
		}
		pc.Steps = append(pc.Steps, proto.Step{M: "textDocument/hover", P: posParams("main.lua", 0, 7)})
		malDesc[pc.ID] = desc
		mal = append(mal, []*proto.Case{pc})
	}
	for _, bad := range []string{"beta/th(.*lua", "[", "*.lua", "tests/\\", "(?P<x", "a{2,1}"} {
		bj, _ := json.Marshal(bad)
		addMal("malformed regular expression "+bad+" in IgnoreFileOrDirError (initialization options)", &proto.Case{Files: map[string]string{},
			Init: json.RawMessage(strings.Replace(allOnLocal, `{"client"`, `{"IgnoreFileOrDirError":[`+string(bj)+`],"client"`, 1))})
		addMal("malformed regular expression "+bad+" in IgnoreFileOrDir (initialization options)", &proto.Case{Files: map[string]string{},
			Init: json.RawMessage(strings.Replace(allOnLocal, `{"client"`, `{"IgnoreFileOrDir":[`+string(bj)+`],"client"`, 1))})
		ch := cfgAbs{Src: "change", Master: true, Err: []string{bad}}
		addMal("malformed regular expression "+bad+" in IgnoreFileOrDirError (settings change)", &proto.Case{Files: map[string]string{}, Init: json.RawMessage(allOnLocal), Steps: []proto.Step{ch.changeStep()}})
		addMal("malformed regular expression "+bad+" in luahelper.json IgnoreFileErr", &proto.Case{Files: map[string]string{"luahelper.json": `{"ShowWarnFlag":1,"IgnoreFileErr":[` + string(bj) + `]}`}, Init: json.RawMessage(allOnLocal)})
		addMal("malformed regular expression "+bad+" in luahelper.json IgnoreFileErrTypes", &proto.Case{Files: map[string]string{"luahelper.json": `{"ShowWarnFlag":1,"IgnoreFileErrTypes":[{"File":` + string(bj) + `,"Types":[4]}]}`}, Init: json.RawMessage(allOnLocal)})
		addMal("malformed regular expression "+bad+" in luahelper.json IgnoreFileOrFloder", &proto.Case{Files: map[string]string{"luahelper.json": `{"ShowWarnFlag":1,"IgnoreFileOrFloder":[` + string(bj) + `]}`}, Init: json.RawMessage(allOnLocal)})
	}
	for _, badjson := range []string{"{", "", "[]", `{"IgnoreErrorTypes":"x"}`, `{"IgnoreFileErrTypes":[{"File":1}]}`, "\xff\xfe", `{"BaseDir":"../../.."}`, `{"ProjectFiles":["nonexistent.lua"]}`} {
		addMal(fmt.Sprintf("malformed luahelper.json %q", badjson), &proto.Case{Files: map[string]string{"luahelper.json": badjson}, Init: json.RawMessage(allOnLocal)})
	}
	pm := c.NewPool(0)
	pm.BaseDir += "m"
	pm.RunSlice(mal, func(pc *proto.Case, res *proto.Result) {
		c.Rep.Eval("mal:" + malDesc[pc.ID])
		if res.Crash != "" || res.Hang || !res.Steps[len(res.Steps)-1].Got {
			what := fmt.Sprintf("%s takes the server down or leaves it unresponsive (crash=%q hang=%v)", malDesc[pc.ID], res.Crash, res.Hang)
			if surveyMode {
				sv.add("malformed kills server", what)
				return
			}
			b, _ := json.Marshal(map[string]interface{}{"fam": "config-malformed", "desc": malDesc[pc.ID], "case": pc})
			c.Rep.Violation(json.RawMessage(b), what)
		}
	})
	c.Rep.Extra["malformed_settings_cases"] = len(mal)
	c.poolStats(p)
	if surveyMode {
		sv.dump()
	}
}
