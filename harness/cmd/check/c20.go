package main

import (
	"encoding/json"
	"fmt"
	"sort"
	"strings"
	"time"

	"verifharness/internal/proto"
	"verifharness/internal/tlc"
)

func init() { registry["C20"] = checkC20 }

type ptCase struct {
	Fam     string `json:"fam"`
	A       string `json:"a"`
	B       string `json:"b"`
	Op      string `json:"op"`
	Ctx     string `json:"ctx"`
	ECtx    string `json:"ectx"`
	Must    []int  `json:"must"`
	Times   int    `json:"times"`
	MustNot []int  `json:"mustnot"`
}

type ptData struct {
	tc   *ptCase
	text string
	line int
}

// ptStmt renders the statement of an instance (one line) and a follow-up line that reads what it declares.
func ptStmt(tc *ptCase) (stmt, after string) {
	switch tc.Fam {
	case "dupkey":
		cons := fmt.Sprintf("{ %s = 1, %s = 2 }", tc.A, tc.B)
		switch tc.ECtx {
		case "arg":
			return "print(" + cons + ")", ""
		case "ret":
			return "local function h() return " + cons + " end", "print(h)"
		case "surplus":
			return "local s = 1, " + cons, "print(s)"
		}
		return "local t = " + cons, "print(t)"
	case "assign", "localdef":
		nt, nv := int(tc.A[0]-'0'), int(tc.B[0]-'0')
		var vals []string
		for i := 1; i < nv; i++ {
			vals = append(vals, "1")
		}
		vals = append(vals, tc.Op)
		if tc.Fam == "assign" {
			return strings.Join([]string{"x", "y", "z"}[:nt], ", ") + " = " + strings.Join(vals, ", "), ""
		}
		names := []string{"l1", "l2", "l3"}[:nt]
		return "local " + strings.Join(names, ", ") + " = " + strings.Join(vals, ", "), "print(" + strings.Join(names, ", ") + ")"
	case "params":
		pl := fmt.Sprintf("(%s, %s, %s) end", tc.A, tc.B, tc.Op)
		switch tc.ECtx {
		case "anon":
			return "local g = function" + pl, "print(g)"
		case "arg":
			return "print(function" + pl + ")", ""
		case "gfunc":
			return "function gg" + pl, ""
		case "surplus":
			return "local s = 1, function" + pl, "print(s)"
		}
		return "local function g" + pl, "print(g)"
	case "binexp", "andfalse", "floateq", "chain", "idxexp":
		e := fmt.Sprintf("%s %s %s", tc.A, tc.Op, tc.B)
		if tc.Fam == "chain" {
			lit := map[string]string{"or": "true", "and": "false"}[tc.Op]
			e = tc.A
			for i := 0; i < int(tc.B[0]-'0'); i++ {
				e += " " + tc.Op + " " + lit
			}
		}
		switch tc.ECtx {
		case "surplus":
			return "local s = 1, " + e, "print(s)"
		case "cond":
			return "if " + e + " then print(1) end", ""
		case "while":
			return "while " + e + " do break end", ""
		case "tbl":
			return "local t = { k = " + e + " }", "print(t)"
		case "ret":
			return "local h = function() return " + e + " end", "print(h)"
		case "index":
			return "print(({})[" + e + "])", ""
		}
		return "print(" + e + ")", ""
	case "dupif":
		return fmt.Sprintf("if %s then elseif %s then elseif %s then end", tc.A, tc.B, tc.Op), ""
	case "selfassign":
		return tc.A + " = " + tc.B, ""
	}
	return "", ""
}

func ptBuild(id int, raw json.RawMessage) *Job {
	var tc ptCase
	if json.Unmarshal(raw, &tc) != nil {
		return nil
	}
	stmt, after := ptStmt(&tc)
	pre := []string{"local x = tostring(1)", "local y = tostring(2)", "local z = tostring(3)", "local function f() return 1, 2 end", "local t = {1, 2}", "print(x, y, z, f, t)"}
	var lines []string
	lines = append(lines, pre...)
	switch tc.Ctx {
	case "func":
		lines = append(lines, "local function ctxf()")
	case "block":
		lines = append(lines, "do")
	}
	ln := len(lines)
	lines = append(lines, stmt)
	if after != "" {
		lines = append(lines, after)
	}
	switch tc.Ctx {
	case "func":
		lines = append(lines, "end", "ctxf()")
	case "block":
		lines = append(lines, "end")
	}
	lines = append(lines, "print(x, y, z)")
	text := strings.Join(lines, "\n") + "\n"
	pc := &proto.Case{ID: id, Files: map[string]string{"f.lua": text}, Init: json.RawMessage(allOnLocal)}
	if hash64(string(raw), 17)%3 == 0 {
		// a third of the instances are judged after the pattern checks were switched off by a settings change and switched
		// on again by the next: what is reported must be what a start with everything on reports
		off := cfgAbs{Src: "change", Master: true, Off: []int{5, 7, 8, 13, 14, 15, 16, 19, 20, 21}}
		on := cfgAbs{Src: "change", Master: true}
		pc.Steps = append(pc.Steps, off.changeStep(), on.changeStep(), proto.Step{M: "textDocument/hover", P: posParams("f.lua", 0, 7)})
	}
	return &Job{PC: pc, Data: &ptData{&tc, text, ln}}
}

var ptTypes = map[int]bool{5: true, 7: true, 8: true, 13: true, 14: true, 15: true, 16: true, 19: true, 20: true, 21: true}

func ptJudge(c *Ctx, j *Job, res *proto.Result) {
	d := j.Data.(*ptData)
	c.Rep.Eval(string(j.Raw))
	if res.Crash != "" || res.Hang {
		c.Rep.Violation(j.Raw, fmt.Sprintf("server died or hung (crash=%q hang=%v) on %q", res.Crash, res.Hang, d.text))
		return
	}
	view := map[string][]diag{}
	foldDiags(res.Root, view, res.InitNtfs)
	for i := range res.Steps {
		foldDiags(res.Root, view, res.Steps[i].Ntfs)
	}
	count := map[int]int{}
	for _, x := range view["f.lua"] {
		if x.Type == 1 {
			c.Rep.Violation(j.Raw, fmt.Sprintf("a valid instance gets a syntax error (%s): %q", x.Msg, d.text))
			return
		}
		if ptTypes[x.Type] && x.SL == d.line {
			count[x.Type]++
		}
	}
	var prob []string
	for _, t := range d.tc.Must {
		if count[t] != d.tc.Times {
			prob = append(prob, fmt.Sprintf("type %d reported %d times on the pattern's line (the pattern occurs %d time(s))", t, count[t], d.tc.Times))
		}
	}
	for _, t := range d.tc.MustNot {
		if count[t] != 0 {
			prob = append(prob, fmt.Sprintf("type %d reported although the pattern does not occur", t))
		}
	}
	if len(prob) == 0 {
		return
	}
	sort.Strings(prob)
	stmt, _ := ptStmt(d.tc)
	desc := fmt.Sprintf("%s — statement %q in context %s (diagnostics on that line: %v)", strings.Join(prob, "; "), stmt, d.tc.Ctx, count)
	if surveyMode {
		for _, p := range prob {
			sv.add(d.tc.Fam+" "+firstWords(p, 3)+" "+strings.Join(strings.Fields(p)[3:], " "), desc)
		}
		return
	}
	c.Rep.Violation(j.Raw, desc)
}

func checkC20(c *Ctx) {
	c.Rep.Rule = "Patterns.tla enumerates instances and near-misses of the ten syntactic checks (duplicate table key, value/target count in assignments and local declarations, duplicate parameters, identical operands, or-true / and-false, repeated if condition, self-assignment, float equality) over small operand sets in three contexts, with the documented verdict per instance: types that must be reported exactly once on the statement's line, types that must not; everything else is left open. Each instance is rendered into a small valid file and the start-up diagnostics of a fresh real server are compared; distinct = distinct instances"
	c.Rep.Assumptions = []string{
		"the rules are written from docs/manual/config.md and the property statement; operands that are parenthesised, calls or member accesses are left open (UNSPECIFIED)",
		"one statement per line, so 'where the pattern occurs' is the line of the statement",
	}
	ctxs := `{"top","func","block"}`
	if c.Replay != "" {
		raw, err := loadReplayCase(c.Replay)
		if err != nil {
			c.Rep.Fatal(err.Error())
			return
		}
		jb := ptBuild(1, raw)
		jb.Raw = raw
		p := c.NewPool(1)
		p.RunSlice([][]*proto.Case{{jb.PC}}, func(_ *proto.Case, r *proto.Result) { ptJudge(c, jb, r) })
		return
	}
	p := c.NewPool(0)
	if !c.streamRun("instances", tlc.Run{Module: "Patterns", Workers: 4, Timeout: 30 * time.Minute,
		Cfg: "CONSTANTS\n  Contexts = " + ctxs + "\nINIT Init\nNEXT Next\nINVARIANTS Consistent Emit\nCHECK_DEADLOCK FALSE\n"}, p, 16, ptBuild, func(j *Job, r *proto.Result) { ptJudge(c, j, r) }) {
		return
	}
	c.Rep.Exhaustive = true
	c.poolStats(p)
	if surveyMode {
		sv.dump()
	}
}
