package main

import (
	"encoding/json"
	"fmt"
	"sort"
	"strings"
	"time"
	"unicode/utf16"

	"verifharness/internal/proto"
	"verifharness/internal/tlc"
)

func init() { registry["C04"] = checkC04 }

// concrete text of the fragments of LuaLex.tla ($E = the file's line ending)
var lexFrag = map[string]string{
	"sp": `print("s") `, "sq": `print('q') `, "se": `print("a\nb") `, "sx": `print("\x41\65") `, "sb": "print(\"é\") ", "sc": "print(\"中\") ",
	"sa": "print(\"😀\") ", "sl": "print(\"l1\\$El2\") ", "lb": "print([[z]]) ", "lb1": "print([=[z]=]) ", "lbm": "print([[a$Eb]]) ",
	"lba": "print([[😀]]) ", "lc": "--[[c]] ", "lcb": "--[[é]] ", "lca": "--[[😀]] ", "lcm": "--[[x$Ey]] ", "tab": "\t",
}
var lexEnt = map[string]string{
	"local": "local ent = 1", "unused": "local ent = 1", "lfunc": "local function ent() end", "global": "ent = 1", "gfunc": "function ent() end",
	"param": "local function fn(ent) return ent end", "forvar": "for ent = 1, 2 do print(ent) end",
	"attr": "local ent <const> = 1", "attr2": "local zq <const>, ent <const> = 1, 2", "local2": "local zq, ent = 1, 2",
	"forin2": "for zq, ent in pairs({}) do print(ent) end",
	"undef":  "print(ent)", "gundef": "print(_G.ent)", "retfield": "return { ent = 1 }",
}
var lexFollow = map[string]bool{"local": true, "lfunc": true, "global": true, "gfunc": true, "attr": true, "attr2": true, "local2": true}
var lexEOL = map[string]string{"LF": "\n", "CRLF": "\r\n", "CR": "\r"}

type lxPos struct {
	L int `json:"l"`
	C int `json:"c"`
}

type lxCase struct {
	Prefix []string `json:"prefix"`
	Ent    string   `json:"ent"`
	Eol    string   `json:"eol"`
	Decl   lxPos    `json:"decl"`
	Occs   []lxPos  `json:"occs"`
}

// lspLines splits text into lines under LSP rules (LF, CRLF, CR) and returns them as UTF-16 unit slices.
func lspLines(text string) [][]uint16 {
	var lines [][]uint16
	u := utf16.Encode([]rune(text))
	cur := []uint16{}
	for i := 0; i < len(u); i++ {
		if u[i] == '\r' {
			if i+1 < len(u) && u[i+1] == '\n' {
				i++
			}
			lines = append(lines, cur)
			cur = []uint16{}
			continue
		}
		if u[i] == '\n' {
			lines = append(lines, cur)
			cur = []uint16{}
			continue
		}
		cur = append(cur, u[i])
	}
	lines = append(lines, cur)
	return lines
}

// rangeText returns the text under a single-line range, or ok=false when the range is not inside the document.
func rangeText(lines [][]uint16, sl, sc, el, ec int) (string, bool) {
	if sl < 0 || el < sl || el >= len(lines) || sc < 0 || ec < 0 || sc > len(lines[sl]) || ec > len(lines[el]) || (sl == el && sc > ec) {
		return "", false
	}
	if sl != el {
		return "", true
	}
	return string(utf16.Decode(lines[sl][sc:ec])), true
}

type lxData struct {
	tc    *lxCase
	text  string
	steps map[string][]int
}

func lxBuild(id int, raw json.RawMessage) *Job {
	var tc lxCase
	if json.Unmarshal(raw, &tc) != nil {
		return nil
	}
	e := lexEOL[tc.Eol]
	var sb strings.Builder
	sb.WriteString("-- first" + e)
	for _, f := range tc.Prefix {
		sb.WriteString(strings.ReplaceAll(lexFrag[f], "$E", e))
	}
	sb.WriteString(lexEnt[tc.Ent] + e)
	if lexFollow[tc.Ent] {
		sb.WriteString("print(ent)" + e)
	}
	text := sb.String()
	pc := &proto.Case{ID: id, Files: map[string]string{"f.lua": text}, Init: json.RawMessage(allOnLocal)}
	pc.Steps = append(pc.Steps, openStep("f.lua", text))
	d := &lxData{tc: &tc, text: text, steps: map[string][]int{}}
	for _, o := range tc.Occs {
		if tc.Ent == "undef" || tc.Ent == "gundef" || tc.Ent == "retfield" {
			break // nothing is declared / the field is asked about from the requiring file
		}
		for _, m := range []string{"textDocument/definition", "textDocument/references", "textDocument/documentHighlight", "textDocument/rename"} {
			var p json.RawMessage
			switch m {
			case "textDocument/references":
				p = refParams("f.lua", o.L, o.C+1)
			case "textDocument/rename":
				p = renameParams("f.lua", o.L, o.C+1, "zz9")
			default:
				p = posParams("f.lua", o.L, o.C+1)
			}
			pc.Steps = append(pc.Steps, proto.Step{M: m, P: p})
			d.steps[m] = append(d.steps[m], len(pc.Steps)-1)
		}
	}
	if tc.Ent == "retfield" {
		user := "local md = require(\"f\")" + e + "print(md.ent)" + e
		pc.Files["u.lua"] = user
		pc.Steps = append(pc.Steps, openStep("u.lua", user), proto.Step{M: "textDocument/definition", P: posParams("u.lua", 1, 10)})
		d.steps["retdef"] = []int{len(pc.Steps) - 1}
	}
	pc.Steps = append(pc.Steps, proto.Step{M: "textDocument/documentSymbol", P: json.RawMessage(`{"textDocument":{"uri":"file://$ROOT/f.lua"}}`)})
	d.steps["sym"] = []int{len(pc.Steps) - 1}
	pc.Steps = append(pc.Steps, proto.Step{M: "workspace/symbol", P: json.RawMessage(`{"query":"ent"}`)})
	d.steps["wsym"] = []int{len(pc.Steps) - 1}
	return &Job{PC: pc, Data: d}
}

func lxJudge(c *Ctx, j *Job, res *proto.Result) {
	d := j.Data.(*lxData)
	c.Rep.Eval(string(j.Raw))
	if res.Crash != "" || res.Hang {
		c.Rep.Violation(j.Raw, fmt.Sprintf("server died or hung (crash=%q hang=%v) on %q", res.Crash, res.Hang, d.text))
		return
	}
	lines := lspLines(d.text)
	// binding self-test: TLC's reference positions must be where the harness's own text has the identifier
	for _, o := range d.tc.Occs {
		if t, ok := rangeText(lines, o.L, o.C, o.L, o.C+3); !ok || t != "ent" {
			c.Rep.Fatal(fmt.Sprintf("LuaLex.tla and the renderer disagree: position %d:%d of %q holds %q", o.L, o.C, d.text, t))
			return
		}
	}
	want := []string{}
	for _, o := range d.tc.Occs {
		want = append(want, fmt.Sprintf("%d:%d-%d:%d", o.L, o.C, o.L, o.C+3))
	}
	sort.Strings(want)
	declR := fmt.Sprintf("%d:%d-%d:%d", d.tc.Decl.L, d.tc.Decl.C, d.tc.Decl.L, d.tc.Decl.C+3)
	var prob []string
	// every range of a named entity must lie in the document and cover exactly the identifier
	checkNamed := func(what string, sl, sc, el, ec int) string {
		t, ok := rangeText(lines, sl, sc, el, ec)
		r := fmt.Sprintf("%d:%d-%d:%d", sl, sc, el, ec)
		if !ok {
			prob = append(prob, fmt.Sprintf("%s range %s lies outside the document or has start > end", what, r))
		} else if t != "ent" {
			prob = append(prob, fmt.Sprintf("%s range %s covers %q, not the identifier", what, r, t))
		}
		return r
	}
	undefEnt := d.tc.Ent == "undef" || d.tc.Ent == "gundef"
	if st := d.steps["retdef"]; len(st) == 1 {
		locs, _ := projLocs(res.Root, res.Steps[st[0]].Reply)
		if len(locs) != 1 || locs[0].File != "f.lua" {
			prob = append(prob, fmt.Sprintf("definition of md.ent (md = require(\"f\")) returns %v, the field is declared in f.lua", locs))
		} else if r := checkNamed("definition of the returned table's field", locs[0].SL, locs[0].SC, locs[0].EL, locs[0].EC); r != declR {
			prob = append(prob, fmt.Sprintf("definition of md.ent answers %s, the field's identifier is at %s", r, declR))
		}
	}
	for k := range d.tc.Occs {
		if undefEnt || d.tc.Ent == "retfield" {
			break
		}
		locs, _ := projLocs(res.Root, res.Steps[d.steps["textDocument/definition"][k]].Reply)
		if len(locs) != 1 {
			prob = append(prob, fmt.Sprintf("definition at occurrence %d returns %d locations", k, len(locs)))
		} else if r := checkNamed("definition", locs[0].SL, locs[0].SC, locs[0].EL, locs[0].EC); r != declR {
			prob = append(prob, fmt.Sprintf("definition answers %s, the declaring identifier is at %s", r, declR))
		}
		for _, m := range []string{"textDocument/references", "textDocument/documentHighlight"} {
			var got []string
			if m == "textDocument/references" {
				ls, _ := projLocs(res.Root, res.Steps[d.steps[m][k]].Reply)
				for _, l := range ls {
					got = append(got, checkNamed("reference", l.SL, l.SC, l.EL, l.EC))
				}
			} else {
				var hl []struct {
					Range rng `json:"range"`
				}
				json.Unmarshal(res.Steps[d.steps[m][k]].Reply, &hl)
				for _, h := range hl {
					got = append(got, checkNamed("highlight", h.Range.Start.Line, h.Range.Start.Character, h.Range.End.Line, h.Range.End.Character))
				}
			}
			sort.Strings(got)
			if strings.Join(uniq(got), " ") != strings.Join(want, " ") {
				prob = append(prob, fmt.Sprintf("%s returns {%s}, the occurrences are at {%s}", m, strings.Join(got, " "), strings.Join(want, " ")))
			}
		}
		var we struct {
			Changes map[string][]rawEdit `json:"changes"`
		}
		json.Unmarshal(res.Steps[d.steps["textDocument/rename"][k]].Reply, &we)
		var got []string
		for _, eds := range we.Changes {
			for _, e := range eds {
				got = append(got, checkNamed("rename edit", e.Range.Start.Line, e.Range.Start.Character, e.Range.End.Line, e.Range.End.Character))
			}
		}
		sort.Strings(got)
		if strings.Join(got, " ") != strings.Join(want, " ") {
			prob = append(prob, fmt.Sprintf("rename edits {%s}, the occurrences are at {%s}", strings.Join(got, " "), strings.Join(want, " ")))
		}
	}
	// diagnostics: every range inside the document; the unused-local warning covers the identifier
	view := map[string][]diag{}
	foldDiags(res.Root, view, res.InitNtfs)
	for i := range res.Steps {
		foldDiags(res.Root, view, res.Steps[i].Ntfs)
	}
	saw4 := false
	for _, x := range view["f.lua"] {
		if _, ok := rangeText(lines, x.SL, x.SC, x.EL, x.EC); !ok {
			prob = append(prob, fmt.Sprintf("diagnostic %q has range %d:%d-%d:%d outside the document", x.Msg, x.SL, x.SC, x.EL, x.EC))
		}
		if x.Type == 4 && strings.Contains(x.Msg, "ent ") {
			saw4 = true
			if r := checkNamed("unused-local diagnostic", x.SL, x.SC, x.EL, x.EC); r != declR {
				prob = append(prob, fmt.Sprintf("unused-local diagnostic at %s, the declaration is at %s", r, declR))
			}
		}
	}
	if undefEnt {
		saw2 := false
		for _, x := range view["f.lua"] {
			if x.Type == 2 && strings.Contains(x.Msg, "ent") {
				saw2 = true
				if r := checkNamed("undefined-variable diagnostic", x.SL, x.SC, x.EL, x.EC); r != declR {
					prob = append(prob, fmt.Sprintf("undefined-variable diagnostic at %s, the name is at %s", r, declR))
				}
			}
		}
		if !saw2 {
			prob = append(prob, "no undefined-variable diagnostic for ent")
		}
	}
	if d.tc.Ent == "unused" && !saw4 {
		prob = append(prob, "no unused-local diagnostic for ent")
	}
	// symbols: ranges inside the document, start <= end, and the entry of ent contains the declaring identifier
	var syms []docSym
	json.Unmarshal(res.Steps[d.steps["sym"][0]].Reply, &syms)
	var all []docSym
	flatten(syms, &all)
	for _, s := range all {
		if _, ok := rangeText(lines, s.Range.Start.Line, s.Range.Start.Character, s.Range.End.Line, s.Range.End.Character); !ok {
			prob = append(prob, fmt.Sprintf("outline entry %q has range %v outside the document or start > end", s.Name, s.Range))
		}
	}
	var ws []wsSym
	json.Unmarshal(res.Steps[d.steps["wsym"][0]].Reply, &ws)
	for _, w := range ws {
		r := w.Location.Range
		if w.Name == "ent" {
			checkNamed("workspace symbol", r.Start.Line, r.Start.Character, r.End.Line, r.End.Character)
		}
	}
	if len(prob) == 0 {
		return
	}
	prob = uniq(prob)
	desc := fmt.Sprintf("%s — source %q", strings.Join(prob, "; "), d.text)
	if surveyMode {
		for _, p := range prob {
			w := strings.Fields(p)
			n := 3
			if len(w) < n {
				n = len(w)
			}
			sv.add(strings.Join(w[:n], " ")+" eol="+d.tc.Eol+" ent="+d.tc.Ent, desc)
		}
		return
	}
	c.Rep.Violation(j.Raw, desc)
}

func checkC04(c *Ctx) {
	c.Rep.Rule = "LuaLex.tla computes the LSP position of every occurrence of an identifier that follows up to MaxPrefix fragments on its line (string literals with escapes, BMP and astral characters, line continuation; long brackets incl. multi-line; long comments incl. multi-line and non-ASCII; tabs), for three line-ending styles and eleven kinds of entity (plain, unused, attributed and second-in-list locals, local and global functions, globals, parameters, numeric and generic loop variables); TLC enumerates all layouts; for each the real server is asked definition, references, highlight, rename at every occurrence, the outline, the workspace symbols and the diagnostics, and every range must lie in the document, have start <= end and, for a named entity, cover exactly the identifier at the position TLC computed; distinct = distinct layouts. Second family: Modules.tla workspaces (tables, member functions and fields, aliases, require/return over two files exhaustively to the item bound and three files simulated): definition, references, highlight and rename are asked at every table variable and member name; every returned range must start and end exactly at an identifier of its document, references/highlights/rename edits must be spelled like the identifier asked about, rename edits must not repeat and must include the position asked at. Third family: a seeded sample of ClassGraph.tla's annotation workspaces; go-to-definition on the type name of a ---@type line (in the file that declares the aliases and in another file) must answer ranges that lie in their document and cover exactly that name"
	c.Rep.Assumptions = []string{
		"the fragment texts are a table in the harness; at run time every reference position is checked against the harness's own LSP slicing of the rendered text (a disagreement aborts the run as a tooling fault)",
		"outline ranges are only required to be well-formed and inside the document here (containment of the identifier is C19's subject)",
	}
	mp := 2
	frags := `{"sp","se","sx","sb","sc","sa","sl","lb","lb1","lbm","lba","lc","lcb","lca","lcm","tab"}`
	if c.Thorough() {
		mp = 3
	}
	cfg := fmt.Sprintf("CONSTANTS\n  MaxPrefix = %d\n  Frags = %s\n  Entities = {\"local\",\"unused\",\"lfunc\",\"global\",\"gfunc\",\"param\",\"forvar\",\"attr\",\"attr2\",\"local2\",\"forin2\",\"undef\",\"gundef\",\"retfield\"}\n  Endings = {\"LF\",\"CRLF\",\"CR\"}\nINIT Init\nNEXT Next\nINVARIANTS ColNonNeg Emit\nCHECK_DEADLOCK FALSE\n", mp, frags)
	if c.Replay != "" {
		raw, err := loadReplayCase(c.Replay)
		if err != nil {
			c.Rep.Fatal(err.Error())
			return
		}
		p := c.NewPool(3)
		if strings.Contains(string(raw), `"fam":"project"`) {
			scSeed = c.Seed
			projHistoryRuns(c, p, 0, []json.RawMessage{raw})
			return
		}
		if strings.Contains(string(raw), `"fam":"modules"`) {
			jb := modBuild(c.Seed)(1, raw)
			jb.Raw = raw
			p.RunSlice([][]*proto.Case{{jb.PC}}, func(_ *proto.Case, r *proto.Result) { modJudgeRanges(c, jb, r) })
			return
		}
		jb := lxBuild(1, raw)
		jb.Raw = raw
		p.RunSlice([][]*proto.Case{{jb.PC}}, func(_ *proto.Case, r *proto.Result) { lxJudge(c, jb, r) })
		return
	}
	p := c.NewPool(0)
	if !c.streamRun("layouts", tlc.Run{Module: "LuaLex", Workers: 4, Timeout: 30 * time.Minute, Cfg: cfg}, p, 8, lxBuild, func(j *Job, r *proto.Result) { lxJudge(c, j, r) }) {
		return
	}
	// second family: ranges of answers about table variables and member names in Modules.tla workspaces
	if !modulesRuns(c, p, modBuild(c.Seed), func(j *Job, r *proto.Result) { modJudgeRanges(c, j, r) }) {
		return
	}
	// third family: go-to-definition on the type name written in a ---@type annotation, for ClassGraph.tla's hierarchies
	// (classes in up to three files, aliases in the main file, a use in yet another file)
	{
		cfg := fmt.Sprintf("CONSTANTS\n  Classes = {\"KA\",\"KB\",\"KC\"}\n  Level = %q\nINIT Init\nNEXT Next\nINVARIANTS Emit\nCHECK_DEADLOCK FALSE\n", c.Tier)
		rate := uint64(8)
		if c.Thorough() {
			rate = 40
		}
		build := func(id int, raw json.RawMessage) *Job {
			if hash64(string(raw), c.Seed)%rate != 0 {
				return nil
			}
			jb := cgBuild(id, raw)
			if jb == nil {
				return nil
			}
			d := jb.Data.(*cgData)
			use := "---@type " + d.tc.Ty + "\nlocal u = {}\nprint(u)\n"
			files := map[string]string{}
			for k, v := range d.files {
				files[k] = v
			}
			files["use.lua"] = use
			pc := &proto.Case{ID: id, Files: files, Init: json.RawMessage(allOnLocal)}
			pc.Steps = append(pc.Steps, openStep("use.lua", use), openStep("main.lua", files["main.lua"]),
				proto.Step{M: "textDocument/definition", P: posParams("use.lua", 0, 10)})
			// the same question on the ---@type line of main.lua (the line before `local v = {}`)
			ml := strings.Split(files["main.lua"], "\n")
			for li, l := range ml {
				if strings.HasPrefix(l, "---@type ") {
					col := strings.Index(l, d.tc.Ty)
					if col > 0 {
						pc.Steps = append(pc.Steps, proto.Step{M: "textDocument/definition", P: posParams("main.lua", li, col+1)})
					}
				}
			}
			return &Job{PC: pc, Data: &anDefData{ty: d.tc.Ty, files: files}}
		}
		judge := func(j *Job, res *proto.Result) {
			d := j.Data.(*anDefData)
			c.Rep.Eval("andef:" + string(j.Raw))
			if res.Crash != "" || res.Hang {
				c.Rep.Violation(j.Raw, fmt.Sprintf("server died or hung (crash=%q) on an annotation workspace", res.Crash))
				return
			}
			var prob []string
			for si := 2; si < len(res.Steps); si++ {
				locs, _ := projLocs(res.Root, res.Steps[si].Reply)
				for _, l := range locs {
					text, ok := d.files[l.File]
					if !ok {
						prob = append(prob, fmt.Sprintf("definition of type %s leads to %s, which is not a file of the workspace", d.ty, l.File))
						continue
					}
					t, inDoc := rangeText(lspLines(text), l.SL, l.SC, l.EL, l.EC)
					if !inDoc {
						prob = append(prob, fmt.Sprintf("definition of type %s: range %d:%d-%d:%d lies outside %s", d.ty, l.SL, l.SC, l.EL, l.EC, l.File))
					} else if t != d.ty {
						prob = append(prob, fmt.Sprintf("definition of type %s: range %s %d:%d-%d:%d covers %q, not the type's name", d.ty, l.File, l.SL, l.SC, l.EL, l.EC, t))
					}
				}
			}
			if len(prob) == 0 {
				return
			}
			sort.Strings(prob)
			desc := strings.Join(uniq(prob), "; ") + "\n-- main.lua\n" + d.files["main.lua"] + "-- types1.lua\n" + d.files["types1.lua"]
			if surveyMode {
				sv.add("andef "+firstWords(prob[0], 8), desc)
				return
			}
			c.Rep.Violation(j.Raw, desc)
		}
		if !c.streamRun("annotation_type_names", tlc.Run{Module: "ClassGraph", Workers: 4, Timeout: 30 * time.Minute, Cfg: cfg}, p, 8, build, judge) {
			return
		}
	}
	c.Rep.Exhaustive = true
	// ranges after edits in project mode: Project.tla workspaces (every second one with two entry files), one file edited and
	// saved twice; what the client holds (diagnostic ranges included) and the definition ranges must be those of a fresh
	// server on the files as they then are -- a range kept from the text before the edit is a range outside the current text
	if c.Replay == "" {
		scSeed = c.Seed
		projHistoryRuns(c, p, 4, nil)
	}
	c.poolStats(p)
	if surveyMode {
		sv.dump()
	}
}

// anDefData: a ClassGraph workspace plus a file that uses the type name in an annotation.
type anDefData struct {
	ty    string
	files map[string]string
}
