package main

import (
	"encoding/json"
	"fmt"
	"regexp"
	"sort"
	"strconv"
	"strings"
	"verifharness/internal/pool"

	"time"

	"verifharness/internal/proto"
	"verifharness/internal/tlc"
)

func init() { registry["C07"] = checkC07 }

type diag struct {
	Type           int
	SL, SC, EL, EC int
	Msg            string
}

var reWarnType = regexp.MustCompile(`\[Warn type:(\d+)\]`)

type rawDiagParams struct {
	URI         string `json:"uri"`
	Diagnostics []struct {
		Range struct {
			Start struct{ Line, Character int } `json:"start"`
			End   struct{ Line, Character int } `json:"end"`
		} `json:"range"`
		Message string `json:"message"`
	} `json:"diagnostics"`
}

// foldDiags folds a notification stream into the client's view: last publishDiagnostics per file.
func foldDiags(root string, view map[string][]diag, ntfs []proto.Ntf) {
	for _, n := range ntfs {
		if n.Method != "textDocument/publishDiagnostics" {
			continue
		}
		var p rawDiagParams
		if json.Unmarshal(n.Params, &p) != nil {
			continue
		}
		f := strings.TrimPrefix(strings.TrimPrefix(p.URI, "file://"), root+"/")
		var ds []diag
		for _, d := range p.Diagnostics {
			t := 0
			if m := reWarnType.FindStringSubmatch(d.Message); m != nil {
				t, _ = strconv.Atoi(m[1])
			}
			ds = append(ds, diag{t, d.Range.Start.Line, d.Range.Start.Character, d.Range.End.Line, d.Range.End.Character, d.Message})
		}
		if len(ds) == 0 {
			delete(view, f)
		} else {
			view[f] = ds
		}
	}
}

type c07Data struct {
	tc *scCase
	r  *scRender
}

func c07Build(id int, raw json.RawMessage) *Job {
	var tc scCase
	if json.Unmarshal(raw, &tc) != nil {
		return nil
	}
	r := scRenderMode(tc.Items, scModeOf(raw, scSeed))
	pc := &proto.Case{ID: id, Files: r.files(), Init: json.RawMessage(allOnLocal)}
	scMaybeProject(pc, r)
	return &Job{PC: pc, Data: &c07Data{&tc, r}}
}

func c07Judge(c *Ctx, j *Job, res *proto.Result) {
	d := j.Data.(*c07Data)
	c.Rep.Eval(string(j.Raw))
	if res.Crash != "" || res.Hang {
		c.Rep.Violation(j.Raw, fmt.Sprintf("server died or hung (crash=%q hang=%v) on program:\n%s", res.Crash, res.Hang, progText(d.r)))
		return
	}
	view := map[string][]diag{}
	foldDiags(res.Root, view, res.InitNtfs)
	got := map[string]string{} // "type@file:line:col" -> message
	for f, ds := range view {
		for _, x := range ds {
			if x.Type == 2 || x.Type == 3 || x.Type == 4 {
				got[fmt.Sprintf("%d@%s:%d:%d", x.Type, f, x.SL, x.SC)] = x.Msg
			}
			if x.Type == 1 {
				c.Rep.Violation(j.Raw, fmt.Sprintf("a program that is valid by construction got a syntax diagnostic: %s at %s:%d:%d\n%s", x.Msg, f, x.SL, x.SC, progText(d.r)))
				return
			}
		}
	}
	reads := map[int]bool{}
	for _, r := range d.tc.Reads {
		reads[r] = true
	}
	must := map[string]string{}    // required diagnostics -> reason
	may := map[string]bool{}       // UNSPECIFIED: either presence or absence is accepted
	devPred := map[string]string{} // diagnostics predicted by a listed as-built deviation
	for i := range d.r.Occ {
		o := &d.r.Occ[i]
		pos := occPos(d.r, o)
		switch o.Role {
		case "decl":
			// unused-local: only plain `local` declarations are not exempt (parameters, loop variables and
			// function values are exempt by the statement)
			if o.Kind == "local" && !reads[o.Decl] {
				must["4@"+pos] = fmt.Sprintf("local %s (declaration %d) is never read", o.Name, o.Decl)
			}
		case "use":
			if o.B != 0 {
				continue
			}
			var defs []scGDef
			for _, g := range d.tc.GDefs {
				if g.N == o.Name {
					defs = append(defs, g)
				}
			}
			if len(defs) == 0 {
				must["2@"+pos] = fmt.Sprintf("%s is read but no local binds it and no file defines it", o.Name)
				continue
			}
			// type 3: every definition comes later, at top level, in the same file
			later := true
			laterAny := true // every definition is textually later in the same file (possibly inside a function)
			for _, g := range defs {
				gd := d.r.DeclAt[g.ID]
				if !(g.File-1 == o.File && gd != nil && occAfter(gd, o)) {
					laterAny = false
				}
				// "top level" = outside any function body (a definition inside a plain block still runs in file order)
				if !(g.File-1 == o.File && gd != nil && !d.tc.Items[gd.Item].InFn && occAfter(gd, o)) {
					later = false
				}
			}
			// as-built (Dev_GlobalDefinedInTwoFilesSplit): the file's own later definition takes precedence over another
			// file's definition, so the read is reported "defined later" although the other file binds it
			same, sameLater, other := 0, 0, 0
			for _, g := range defs {
				gd := d.r.DeclAt[g.ID]
				if g.File-1 == o.File {
					same++
					if gd != nil && occAfter(gd, o) {
						sameLater++
					}
				} else {
					other++
				}
			}
			if other > 0 && same > 0 && same == sameLater {
				devPred["3@"+pos] = "Dev_GlobalDefinedInTwoFilesSplit"
			}
			sameStat := false
			for _, g := range defs {
				if gd := d.r.DeclAt[g.ID]; gd != nil && gd.Item == o.Item {
					sameStat = true
				}
			}
			if sameStat {
				// the read sits in the right-hand side of the assignment that defines the global: it is evaluated before
				// the definition takes effect although it follows it textually -> "defined later" is not settled (UNSPECIFIED)
				may["3@"+pos] = true
			}
			if !later && laterAny {
				// the only definitions come later but inside function bodies: the statement's type-3 clause speaks of
				// top-level definitions only and its "bound name" clause of silence; not settled -> UNSPECIFIED
				may["3@"+pos] = true
			}
			if later {
				if d.tc.Items[o.Item].InFn {
					may["3@"+pos] = true
				} else {
					must["3@"+pos] = fmt.Sprintf("%s is read at top level before its only (later, top-level, same-file) definition", o.Name)
				}
			}
		}
	}
	var probs []string
	for k, why := range must {
		if _, ok := got[k]; !ok {
			probs = append(probs, "missing "+k+" ("+why+")")
		}
	}
	for k, msg := range got {
		if _, ok := must[k]; !ok && !may[k] {
			if dev, ok := devPred[k]; ok {
				c.Rep.Deviation(dev, fmt.Sprintf("%s reported (%s) although another file defines the global\n%s", k, msg, progText(d.r)), j.Raw)
				continue
			}
			probs = append(probs, "unexpected "+k+" ("+msg+")")
		}
	}
	if len(probs) == 0 {
		return
	}
	sort.Strings(probs)
	desc := fmt.Sprintf("diagnostics of types 2/3/4 disagree with the bindings: %s\n%s", strings.Join(probs, "; "), progText(d.r))
	if surveyMode {
		for _, p := range probs {
			sig := regexp.MustCompile(`@\S+`).ReplaceAllString(p, "")
			sig = regexp.MustCompile(`\(.*`).ReplaceAllString(sig, "")
			sv.add(sig, desc)
		}
		return
	}
	c.Rep.Violation(j.Raw, desc)
}

func checkC07(c *Ctx) {
	c.Rep.Rule = "programs are behaviours of Scope.tla with TLC's read set and global-definition table; the start-up publishDiagnostics of a fresh real server (all checks on) are projected to {(type, file, line, col)} for types 2, 3, 4 and compared with the set the bindings require. Second family: IgnoreLists.tla enumerates the subsets of an exact-name list and a shell-pattern list given through luahelper.json (IgnoreModules, IgnoreWildcardModules); a file reads ten names (matching, near-missing, built-in, unrelated) and exactly the unbound names that no entry covers must be reported undefined; distinct = distinct programs and configurations"
	c.Rep.Assumptions = []string{
		"exempt from unused-local: parameters, loop variables, function values (statement's list); only plain local declarations carry a type-4 obligation",
		"a use inside a function body of a global defined later at top level is UNSPECIFIED (type 3 or nothing); so is a use whose only definitions come later inside function bodies",
		"LocalRun=true so that Lua's standard names (print, pairs, tostring) are known without the editor plug-in directory",
	}
	if c.Replay != "" {
		raw, err := loadReplayCase(c.Replay)
		if err != nil {
			c.Rep.Fatal(err.Error())
			return
		}
		if projReplay(c, raw, "diagnostics") {
			return
		}
		jb := c07Build(1, raw)
		jb.Raw = raw
		p := c.NewPool(1)
		p.RunSlice([][]*proto.Case{{jb.PC}}, func(_ *proto.Case, r *proto.Result) { c07Judge(c, jb, r) })
		c.Rep.Sample(map[string]interface{}{"replayed": raw}, 1)
		return
	}
	p := c.NewPool(0)
	scopeRuns(c, p, c07Build, func(j *Job, r *proto.Result) { c07Judge(c, j, r) })
	// second family: names that luahelper.json declares as provided from outside (IgnoreLists.tla)
	c.streamRun("ignore_lists", tlc.Run{Module: "IgnoreLists", Workers: 2, Timeout: 10 * time.Minute,
		Cfg: "INIT Init\nNEXT Next\nINVARIANTS BuiltInNeverReported Monotone PerDirectory CoreSeesAll Emit\nCHECK_DEADLOCK FALSE\n"}, p, 4,
		func(id int, raw json.RawMessage) *Job {
			var o struct {
				Names     []string            `json:"names"`
				Exact     []string            `json:"exact"`
				Pats      []string            `json:"pats"`
				Undefined []int               `json:"undefined"`
				FileVars  map[string][]string `json:"filevars"`
				UndefIn   map[string][]string `json:"undefin"`
			}
			if json.Unmarshal(raw, &o) != nil || len(o.Names) == 0 {
				return nil
			}
			var sb strings.Builder
			for _, n := range o.Names {
				sb.WriteString("print(" + n + ")\n")
			}
			if o.Exact == nil {
				o.Exact = []string{}
			}
			if o.Pats == nil {
				o.Pats = []string{}
			}
			fv := []map[string]interface{}{}
			for _, d := range []string{"net/", "ui/"} {
				if vs := o.FileVars[d]; len(vs) > 0 {
					sort.Strings(vs)
					fv = append(fv, map[string]interface{}{"File": d, "Vars": vs})
				}
			}
			cfg, _ := json.Marshal(map[string]interface{}{"ShowWarnFlag": 1, "IgnoreModules": o.Exact, "IgnoreWildcardModules": o.Pats, "IgnoreFileVars": fv})
			text := sb.String()
			dirText := "print(NetEnv)\nprint(UiEnv)\nprint(Shared)\n"
			pc := &proto.Case{ID: id, Files: map[string]string{"main.lua": text, "luahelper.json": string(cfg),
				"net/client.lua": dirText, "ui/panel.lua": dirText, "core/boot.lua": dirText}, Init: json.RawMessage(allOnLocal)}
			want := map[int]bool{}
			for _, i := range o.Undefined {
				want[i-1] = true // line = position in Names
			}
			wantIn := map[string]map[string]bool{}
			for d, f := range map[string]string{"net/": "net/client.lua", "ui/": "ui/panel.lua", "core/": "core/boot.lua"} {
				wantIn[f] = map[string]bool{}
				for _, n := range o.UndefIn[d] {
					wantIn[f][n] = true
				}
			}
			return &Job{PC: pc, Data: &ignData{names: o.Names, want: want, cfg: string(cfg), wantIn: wantIn}}
		},
		func(j *Job, res *proto.Result) {
			d := j.Data.(*ignData)
			c.Rep.Eval(string(j.Raw))
			if res.Crash != "" || res.Hang {
				c.Rep.Violation(j.Raw, fmt.Sprintf("server died or hung (crash=%q) under %s", res.Crash, d.cfg))
				return
			}
			view := map[string][]diag{}
			foldDiags(res.Root, view, res.InitNtfs)
			got := map[int]bool{}
			for _, x := range view["main.lua"] {
				if x.Type == 2 || x.Type == 3 {
					got[x.SL] = true
				}
			}
			var prob []string
			for i, n := range d.names {
				if d.want[i] && !got[i] {
					prob = append(prob, n+" is read, unbound and not configured-ignored, but is not reported undefined")
				}
				if !d.want[i] && got[i] {
					prob = append(prob, n+" is reported undefined although it is a built-in or configured-ignored name")
				}
			}
			for f, w := range d.wantIn {
				gotIn := map[string]bool{}
				for _, x := range view[f] {
					if x.Type == 2 || x.Type == 3 {
						gotIn[[]string{"NetEnv", "UiEnv", "Shared"}[x.SL%3]] = true
					}
				}
				for _, n := range []string{"NetEnv", "UiEnv", "Shared"} {
					if w[n] && !gotIn[n] {
						prob = append(prob, n+" is read in "+f+", unbound and not configured-ignored for that file, but is not reported undefined")
					}
					if !w[n] && gotIn[n] {
						prob = append(prob, n+" is reported undefined in "+f+" although IgnoreFileVars lists it for that directory")
					}
				}
			}
			if len(prob) == 0 {
				return
			}
			desc := fmt.Sprintf("under luahelper.json %s: %s", d.cfg, strings.Join(prob, "; "))
			if surveyMode {
				sv.add("ignorelists "+firstWords(prob[0], 6), desc)
				return
			}
			c.Rep.Violation(j.Raw, desc)
		})
	c07Scenarios(c, p)
	// Project.tla: workspaces analysed as a project (entry file + what it requires), both modes
	projectRuns(c, p, 0, "diagnostics")
	c.poolStats(p)
	if surveyMode {
		sv.dump()
	}
}

// c07Scenarios: two situations outside the generated programs, each in plain and in project mode. (1) Two modules
// with the same file name in different directories, each required by its neighbour under the same string: the globals
// of both are defined, nothing may be reported undefined. (2) The only file that defines a global is deleted and the
// deletion reported (a batch with nothing but the deletion): the reads of that global are undefined from then on.
func c07Scenarios(c *Ctx, p *pool.Pool) {
	type sc struct {
		name  string
		files map[string]string
		steps []proto.Step
		want  []string // "file:line" of the undefined reads at the end
	}
	var scs []sc
	for _, project := range []bool{false, true} {
		same := map[string]string{
			"main.lua":       "require(\"net.client\")\nrequire(\"ui.panel\")\n",
			"net/client.lua": "require(\"util\")\nprint(g_netutil)\n", "net/util.lua": "g_netutil = 1\n",
			"ui/panel.lua": "require(\"util\")\nprint(g_uiutil)\n", "ui/util.lua": "g_uiutil = 2\n",
		}
		del := map[string]string{"main.lua": "require(\"def\")\nrequire(\"use\")\n", "def.lua": "gdel = 1\n", "use.lua": "print(gdel)\nprint(gdel)\n"}
		tag := "plain"
		if project {
			tag = "project"
			same["luahelper.json"] = `{"ShowWarnFlag":1,"ProjectFiles":["main.lua"]}`
			del["luahelper.json"] = `{"ShowWarnFlag":1,"ProjectFiles":["main.lua"]}`
		}
		scs = append(scs, sc{"two modules under one require string, " + tag, same, []proto.Step{{M: "textDocument/hover", P: posParams("main.lua", 0, 1)}}, nil})
		scs = append(scs, sc{"the defining file is deleted (deletion-only batch), " + tag, del,
			[]proto.Step{{M: "fs.delete", Path: "def.lua"},
				{M: "workspace/didChangeWatchedFiles", N: true, P: json.RawMessage(`{"changes":[{"uri":"file://$ROOT/def.lua","type":3}]}`)},
				{M: "textDocument/hover", P: posParams("main.lua", 0, 1)}}, []string{"use.lua:0", "use.lua:1"}})
	}
	var groups [][]*proto.Case
	for i, s := range scs {
		groups = append(groups, []*proto.Case{{ID: i + 1, Files: s.files, Init: json.RawMessage(allOnLocal), Steps: s.steps}})
	}
	p.RunSlice(groups, func(pc *proto.Case, res *proto.Result) {
		s := scs[pc.ID-1]
		raw, _ := json.Marshal(map[string]interface{}{"fam": "c07-scenario", "name": s.name})
		c.Rep.Eval("scenario:" + s.name)
		if res.Crash != "" || res.Hang {
			c.Rep.Violation(raw, fmt.Sprintf("%s: server died or hung (crash=%q)", s.name, res.Crash))
			return
		}
		view := map[string][]diag{}
		foldDiags(res.Root, view, res.InitNtfs)
		for i := range res.Steps {
			foldDiags(res.Root, view, res.Steps[i].Ntfs)
		}
		var got []string
		for f, ds := range view {
			for _, x := range ds {
				if x.Type == 2 || x.Type == 3 {
					got = append(got, fmt.Sprintf("%s:%d", f, x.SL))
				}
			}
		}
		sort.Strings(got)
		if strings.Join(got, " ") != strings.Join(s.want, " ") {
			desc := fmt.Sprintf("%s: reads reported undefined at {%s}, the unbound reads are at {%s}", s.name, strings.Join(got, " "), strings.Join(s.want, " "))
			if surveyMode {
				sv.add("scenario "+s.name, desc)
				return
			}
			c.Rep.Violation(raw, desc)
		}
	})
	c.Rep.Traces += int64(len(scs))
}

// ignData: one IgnoreLists.tla configuration.
type ignData struct {
	names  []string
	want   map[int]bool
	cfg    string
	wantIn map[string]map[string]bool // file -> names that must be reported there (IgnoreFileVars)
}

// occAfter: a comes textually after b in the same file.
func occAfter(a, b *occ) bool {
	return a.Line > b.Line || (a.Line == b.Line && a.Col > b.Col)
}
