package main

import (
	"bytes"
	"crypto/sha1"
	"encoding/hex"
	"encoding/json"
	"fmt"
	"os"
	"os/exec"
	"path/filepath"
	"regexp"
	"sort"
	"strings"
	"time"

	"verifharness/internal/proto"
	"verifharness/internal/tlc"
)

func init() { registry["C10"] = checkC10 }

type exAccess struct {
	S    string `json:"s"`
	W    bool   `json:"w"`
	Bare bool   `json:"bare"`
}

type exHandler struct {
	Handler string     `json:"handler"`
	Lock    string     `json:"lock"`
	Acc     []exAccess `json:"acc"`
}

// protocol knowledge: which LSP methods are notifications
var lspNotifications = map[string]bool{"initialized": true, "textDocument/didChange": true, "textDocument/didSave": true, "textDocument/didOpen": true,
	"textDocument/didClose": true, "workspace/didChangeConfiguration": true, "workspace/didChangeWorkspaceFolders": true,
	"workspace/didChangeWatchedFiles": true, "$/cancelRequest": true, "exit": true}

// the message kinds of the property's quantifier
var c10Requests = []string{"textDocument/hover", "textDocument/definition", "textDocument/references", "textDocument/rename", "textDocument/documentSymbol",
	"workspace/symbol", "textDocument/completion", "textDocument/documentHighlight", "luahelper/getVarColor", "textDocument/signatureHelp"}
var c10Notifs = []string{"textDocument/didChange", "textDocument/didSave", "textDocument/didOpen", "textDocument/didClose",
	"workspace/didChangeWatchedFiles", "workspace/didChangeConfiguration"}

func tlaStr(s string) string { return `"` + s + `"` }

// dispatchTables renders the generated constants module (binding B3).
func dispatchTables(tab map[string]exHandler) string {
	var kinds []string
	for k := range tab {
		kinds = append(kinds, k)
	}
	sort.Strings(kinds)
	var sb strings.Builder
	sb.WriteString("---------------------------- MODULE DispatchTables ----------------------------\n")
	sb.WriteString("(* GENERATED from the source tree by harness/cmd/extract on every run; do not edit. *)\nEXTENDS TLC\n\n")
	var ks, nt, lk, ac []string
	for _, k := range kinds {
		ks = append(ks, tlaStr(k))
		if lspNotifications[k] {
			nt = append(nt, tlaStr(k))
		}
		lk = append(lk, fmt.Sprintf("(%s :> %s)", tlaStr(k), tlaStr(tab[k].Lock)))
		var as []string
		for _, a := range tab[k].Acc {
			as = append(as, fmt.Sprintf("[s |-> %s, w |-> %s, bare |-> %s]", tlaStr(a.S), strings.ToUpper(fmt.Sprint(a.W)), strings.ToUpper(fmt.Sprint(a.Bare))))
		}
		ac = append(ac, fmt.Sprintf("(%s :> {%s})", tlaStr(k), strings.Join(as, ", ")))
	}
	fmt.Fprintf(&sb, "Kinds == {%s}\n\nIsNtf == [k \\in Kinds |-> k \\in {%s}]\n\nLock == %s\n\nAcc == %s\n", strings.Join(ks, ", "), strings.Join(nt, ", "),
		strings.Join(lk, "\n     @@ "), strings.Join(ac, "\n    @@ "))
	sb.WriteString("=============================================================================\n")
	return sb.String()
}

func c10BigDoc() string {
	var sb strings.Builder
	for i := 0; i < 400; i++ {
		fmt.Fprintf(&sb, "local v%d = %d\nlocal function f%d(a, b) return a + b + v%d end\nprint(f%d(v%d, %d))\n", i, i, i, i, i, i, i)
	}
	sb.WriteString("gtab = { one = 1, two = 2 }\nfunction gtab.run(x) return x end\n")
	return sb.String()
}

// c10Msg renders one concrete message of a kind (k-th use, so that positions vary).
func c10Msg(kind string, k int, big string) proto.Step {
	line := 3*(k%300) + 2
	pos := fmt.Sprintf(`{"textDocument":{"uri":"file://$ROOT/big.lua"},"position":{"line":%d,"character":7}`, line)
	switch kind {
	case "textDocument/hover", "textDocument/definition", "textDocument/documentHighlight", "textDocument/signatureHelp":
		return proto.Step{M: kind, NoWait: true, P: json.RawMessage(pos + "}")}
	case "textDocument/references":
		return proto.Step{M: kind, NoWait: true, P: json.RawMessage(pos + `,"context":{"includeDeclaration":true}}`)}
	case "textDocument/rename":
		return proto.Step{M: kind, NoWait: true, P: json.RawMessage(pos + `,"newName":"zz"}`)}
	case "textDocument/completion":
		return proto.Step{M: kind, NoWait: true, P: json.RawMessage(pos + `,"context":{"triggerKind":1}}`)}
	case "textDocument/documentSymbol":
		return proto.Step{M: kind, NoWait: true, P: json.RawMessage(`{"textDocument":{"uri":"file://$ROOT/big.lua"}}`)}
	case "workspace/symbol":
		return proto.Step{M: kind, NoWait: true, P: json.RawMessage(`{"query":"gtab"}`)} // few matches: the 200-entry cap (whose cut follows map order, see C09) is not reached
	case "luahelper/getVarColor":
		return proto.Step{M: kind, NoWait: true, P: json.RawMessage(`{"uri":"file://$ROOT/big.lua"}`)}
	case "textDocument/didChange":
		return proto.Step{M: kind, N: true, NoWait: true, P: json.RawMessage(fmt.Sprintf(`{"textDocument":{"uri":"file://$ROOT/big.lua","version":%d},"contentChanges":[{"range":{"start":{"line":0,"character":0},"end":{"line":0,"character":0}},"text":"-- c%d\n"}]}`, k+2, k))}
	case "textDocument/didSave":
		return proto.Step{M: kind, N: true, NoWait: true, P: json.RawMessage(fmt.Sprintf(`{"textDocument":{"uri":"file://$ROOT/big.lua"},"text":%s}`, jstr(big)))}
	case "textDocument/didOpen":
		return proto.Step{M: kind, N: true, NoWait: true, P: json.RawMessage(`{"textDocument":{"uri":"file://$ROOT/second.lua","languageId":"lua","version":1,"text":"local s2 = 1\nprint(s2)\n"}}`)}
	case "textDocument/didClose":
		return proto.Step{M: kind, N: true, NoWait: true, P: json.RawMessage(`{"textDocument":{"uri":"file://$ROOT/second.lua"}}`)}
	case "workspace/didChangeWatchedFiles":
		return proto.Step{M: kind, N: true, NoWait: true, P: json.RawMessage(`{"changes":[{"uri":"file://$ROOT/other.lua","type":2}]}`)}
	case "workspace/didChangeConfiguration":
		c := cfgAbs{Src: "change", Master: true}
		st := c.changeStep()
		st.NoWait = true
		return st
	}
	return proto.Step{M: kind, NoWait: true, P: json.RawMessage(`{}`)}
}

var reRaceBlock = regexp.MustCompile(`(?s)WARNING: DATA RACE.*?==================`)
var reHandlerFrame = regexp.MustCompile(`langserver\.\(\*LspServer\)\.(\w+)\(`)
var reAccessTop = regexp.MustCompile(`(?m)^(?:Write|Read|Previous write|Previous read) at [^\n]*\n\s+(\S+?)\(`)

type raceObs struct {
	handlers []string // Go handler methods involved (sorted)
	tops     []string // innermost frames of the two accesses
	text     string
}

func parseRaces(log string, handlerNames map[string]bool) []raceObs {
	var out []raceObs
	for _, blk := range reRaceBlock.FindAllString(log, -1) {
		hs := map[string]bool{}
		for _, m := range reHandlerFrame.FindAllStringSubmatch(blk, -1) {
			if handlerNames[m[1]] {
				hs[m[1]] = true
			}
		}
		var hl []string
		for h := range hs {
			hl = append(hl, h)
		}
		sort.Strings(hl)
		var tops []string
		for _, m := range reAccessTop.FindAllStringSubmatch(blk, -1) {
			t := m[1]
			if i := strings.LastIndex(t, "/"); i >= 0 {
				t = t[i+1:]
			}
			tops = append(tops, t)
		}
		if len(blk) > 3000 {
			blk = blk[:3000]
		}
		out = append(out, raceObs{hl, tops, blk})
	}
	return out
}

type pairKey struct{ a, b string }

func keys2pairs(k []pairKey) []pairKey { return k }

func digest(root string, sr *proto.StepResult) string {
	b := sr.Reply
	pre := ""
	if len(sr.Err) > 0 {
		b, pre = sr.Err, "ERR:"
	}
	// order-insensitive digest: every JSON array is sorted (list order of symbols/items is not part of the answer)
	var v interface{}
	if json.Unmarshal(b, &v) == nil {
		b, _ = json.Marshal(canon(v))
	}
	h := sha1.Sum([]byte(strings.ReplaceAll(string(b), root, "$ROOT")))
	return pre + hex.EncodeToString(h[:8])
}

// c10Serialisable: concurrent answers must equal the answers of some admissible sequential order (DispatchLin.tla).
func c10Serialisable(c *Ctx, keys []pairKey, big string) {
	perms := [][]int{{1, 2, 3}, {1, 3, 2}, {2, 1, 3}, {2, 3, 1}, {3, 1, 2}, {3, 2, 1}}
	type exp struct {
		k     pairKey
		msgs  []proto.Step
		conc  []string
		perms []map[string]interface{}
		dead  bool
	}
	exps := map[int]*exp{}
	var cases [][]*proto.Case
	id := 0
	files := map[string]string{"big.lua": big, "other.lua": "gother = 1\n", "second.lua": "local s2 = 1\nprint(s2)\n"}
	owner := map[int][2]int{} // case id -> (experiment id, perm index or -1)
	addExp := func(ei int, k pairKey, msgs []proto.Step, files map[string]string, doc string) {
		e := &exp{k: k, msgs: msgs}
		exps[ei] = e
		prelude := []proto.Step{openStep("big.lua", doc)}
		if k.a == "textDocument/didClose" || k.b == "textDocument/didClose" {
			prelude = append(prelude, openStep("second.lua", "local s2 = 1\nprint(s2)\n"))
		}
		// concurrent: all three without awaiting
		id++
		pc := &proto.Case{ID: id, Files: files, Init: json.RawMessage(allOnLocal)}
		pc.Steps = append(append(pc.Steps, prelude...), e.msgs...)
		pc.Steps = append(pc.Steps, proto.Step{M: "barrier"})
		owner[id] = [2]int{ei, -1}
		cases = append(cases, []*proto.Case{pc})
		for pi, order := range perms {
			id++
			sq := &proto.Case{ID: id, Files: files, Init: json.RawMessage(allOnLocal)}
			sq.Steps = append(sq.Steps, prelude...)
			for _, m := range order {
				st := e.msgs[m-1]
				st.NoWait = false
				sq.Steps = append(sq.Steps, st)
			}
			owner[id] = [2]int{ei, pi}
			cases = append(cases, []*proto.Case{sq})
		}
	}
	for ei, k := range keys {
		addExp(ei, k, []proto.Step{c10Msg(k.a, 0, big), c10Msg(k.b, 1, big), c10Msg(k.a, 2, big)}, files, big)
	}
	// requests that have nothing to answer (the edit in flight emptied the document; the document was closed) must still
	// leave the server able to answer the next one
	{
		empty := proto.Step{M: "textDocument/didChange", N: true, NoWait: true, P: json.RawMessage(`{"textDocument":{"uri":"file://$ROOT/big.lua","version":2},"contentChanges":[{"text":""}]}`)}
		for _, kind := range []string{"textDocument/hover", "textDocument/definition", "textDocument/documentHighlight", "textDocument/references", "textDocument/completion", "textDocument/signatureHelp"} {
			k := pairKey{a: kind + " (on a document the edit in flight empties)", b: "textDocument/didChange"}
			keys = append(keys, k)
			addExp(len(keys)-1, k, []proto.Step{c10Msg(kind, 0, big), empty, c10Msg(kind, 2, big)}, files, big)
		}
	}
	// an edit that changes what a name denotes (an inner local is renamed to the name of an outer one), sent while a
	// slow request holds the server and a position request on that name waits behind it: the waiting request must be
	// answered for the text before the edit or for the text after it, never for a mixture
	{
		var sb strings.Builder
		sb.WriteString("local val = 1\nlocal function f()\n  local other = 2\n  return other\nend\nprint(val, f)\ngbig = 1\n")
		for i := 0; i < 60000; i++ {
			sb.WriteString("print(gbig)\n")
		}
		doc := sb.String()
		sfiles := map[string]string{"big.lua": doc, "other.lua": "gother = 1\n", "second.lua": "local s2 = 1\nprint(s2)\n"}
		slow := proto.Step{M: "textDocument/references", NoWait: true, P: json.RawMessage(`{"textDocument":{"uri":"file://$ROOT/big.lua"},"position":{"line":6,"character":1},"context":{"includeDeclaration":true}}`)}
		edit := proto.Step{M: "textDocument/didChange", N: true, NoWait: true, P: json.RawMessage(`{"textDocument":{"uri":"file://$ROOT/big.lua","version":2},"contentChanges":[{"range":{"start":{"line":2,"character":8},"end":{"line":2,"character":13}},"text":"val"},{"range":{"start":{"line":3,"character":9},"end":{"line":3,"character":14}},"text":"val"}]}`)}
		for r := 0; r < 3; r++ {
			for _, kind := range []string{"textDocument/definition", "textDocument/hover", "textDocument/references", "textDocument/rename"} {
				pos := `{"textDocument":{"uri":"file://$ROOT/big.lua"},"position":{"line":3,"character":10}`
				switch kind {
				case "textDocument/references":
					pos += `,"context":{"includeDeclaration":true}`
				case "textDocument/rename":
					pos += `,"newName":"zz"`
				}
				q := proto.Step{M: kind, NoWait: true, P: json.RawMessage(pos + "}")}
				k := pairKey{a: kind + " (behind a slow request, on a name the edit re-binds)", b: "textDocument/didChange"}
				keys = append(keys, k)
				addExp(len(keys)-1, k, []proto.Step{slow, q, edit}, sfiles, doc)
			}
		}
	}
	p := c.NewPool(0)
	p.BaseDir += "lin"
	p.RunSlice(cases, func(pc *proto.Case, res *proto.Result) {
		ow := owner[pc.ID]
		e := exps[ow[0]]
		if res.Crash != "" || res.Hang {
			e.dead = true
			raw, _ := json.Marshal(map[string]interface{}{"fam": "dispatch-lin", "a": e.k.a, "b": e.k.b})
			c.Rep.Violation(raw, fmt.Sprintf("server crashed or hung while %s, %s, %s were processed (crash=%q)", e.k.a, e.k.b, e.k.a, res.Crash))
			return
		}
		off := len(pc.Steps) - 3
		if ow[1] < 0 {
			off = len(pc.Steps) - 4
			for m := 0; m < 3; m++ {
				d := ""
				if !e.msgs[m].N {
					d = digest(res.Root, &res.Steps[off+m])
				}
				e.conc = append(e.conc, d)
			}
			return
		}
		order := perms[ow[1]]
		ans := make([]string, 3)
		for pos, m := range order {
			if !e.msgs[m-1].N {
				ans[m-1] = digest(res.Root, &res.Steps[off+pos])
			}
		}
		e.perms = append(e.perms, map[string]interface{}{"order": order, "ans": ans})
	})
	var buf bytes.Buffer
	n := 0
	for ei := 0; ei < len(keys); ei++ {
		e := exps[ei]
		if e.dead || len(e.conc) != 3 || len(e.perms) != 6 {
			continue
		}
		var msgs []map[string]interface{}
		for _, m := range e.msgs {
			// workspace/symbol returns a 200-entry cut of all symbols whose content follows map order even sequentially (C09)
			msgs = append(msgs, map[string]interface{}{"kind": m.M, "ntf": m.N, "cmp": !m.N && m.M != "workspace/symbol"})
		}
		b, _ := json.Marshal(map[string]interface{}{"id": ei, "msgs": msgs, "conc": e.conc, "perms": e.perms})
		buf.Write(b)
		buf.WriteByte('\n')
		n++
	}
	if n == 0 {
		return
	}
	st, err := c.TLC(tlc.Run{Module: "DispatchLin", Workers: 1, Timeout: 10 * time.Minute, Files: map[string][]byte{"lin.ndjson": buf.Bytes()},
		Cfg: "INIT Init\nNEXT Next\nINVARIANTS Report\nCHECK_DEADLOCK FALSE\n"}, func(j json.RawMessage) {
		var o struct {
			ID      int  `json:"id"`
			Covered bool `json:"covered"`
		}
		if json.Unmarshal(j, &o) != nil {
			return
		}
		e := exps[o.ID]
		raw, _ := json.Marshal(map[string]interface{}{"fam": "dispatch-lin", "a": e.k.a, "b": e.k.b})
		desc := fmt.Sprintf("with %s, %s, %s in flight together the answers %v equal those of no admissible sequential order (replays: %v)", e.k.a, e.k.b, e.k.a, e.conc, e.perms)
		if surveyMode {
			sv.add("not linearizable "+e.k.a+" || "+e.k.b, desc)
			return
		}
		c.Rep.Violation(raw, desc)
	})
	if err != nil || st.ExitCode != 0 || st.Depth != n {
		c.Rep.Fatal(fmt.Sprintf("DispatchLin.tla did not evaluate all experiments (depth %d of %d, exit %d): %v\n%s", st.Depth, n, st.ExitCode, err, lastLines(st.Out, 10)))
		return
	}
	c.Rep.Extra["serialisability_experiments_evaluated_by_tlc"] = n
	c.Rep.Traces += int64(n)
}

func checkC10(c *Ctx) {
	c.Rep.Rule = "the lock/footprint tables are extracted from the source tree (go/ast) into DispatchTables.tla; TLC explores Dispatch.tla over every script of up to 3 messages (safety, termination) and reports which ordered pairs of message kinds can be in flight together and on which structures they would race; every such pair over the property's 10 request kinds x (10 requests + 6 notifications) is then fired back-to-back, repeatedly, at the real server built with the Go race detector, on a 1200-line document; distinct = distinct ordered pairs"
	c.Rep.Assumptions = []string{
		"jrpc2's dispatch rule (barrier on earlier notifications, semaphore 4) is transcribed from server.go of v0.13.1 by hand",
		"the footprint extraction is a static over-approximation within package langserver (reads/writes of LspServer fields and a table of state-changing callee names)",
		"a race report or a runtime 'concurrent map' fault of the real binary is a violation whatever the model predicts; a predicted race that is not observed is only recorded",
		"serialisability: for every pair (a, b) the three messages a, b, a are sent back-to-back and every request answer must equal (digest of the reply) the answer in one of the six sequential replays that respects the notification barrier",
	}
	repo := "/repo"
	if alt := os.Getenv("VERIF_REPO"); alt != "" {
		repo = alt
	}
	ex := exec.Command("go", "run", "./cmd/extract", filepath.Join(repo, "luahelper-lsp", "langserver"))
	ex.Dir = filepath.Join(c.Root, "harness")
	ex.Env = append(os.Environ(), "GOFLAGS=-mod=mod", "GOPROXY=off", "GOSUMDB=off", "GOTOOLCHAIN=local")
	exOut, err := ex.Output()
	tab := map[string]exHandler{}
	if err != nil || json.Unmarshal(exOut, &tab) != nil || len(tab) < 10 {
		c.Rep.Fatal(fmt.Sprintf("table extraction failed: %v", err))
		return
	}
	c.Rep.Extra["extracted_tables"] = tab
	tables := dispatchTables(tab)
	handlerNames := map[string]bool{}
	kindOfHandler := map[string]string{}
	for k, h := range tab {
		handlerNames[h.Handler] = true
		kindOfHandler[h.Handler] = k
	}
	var sk []string
	for _, k := range append(append([]string{}, c10Requests...), c10Notifs...) {
		if _, ok := tab[k]; !ok {
			c.Rep.Fatal("handler table has no entry for " + k)
			return
		}
		sk = append(sk, tlaStr(k))
	}
	cfg := func(n int, invs, props string) string {
		s := fmt.Sprintf("CONSTANTS\n  MaxMsgs = %d\n  Concurrency = 4\n  ScriptKinds = {%s}\nINIT Init\nNEXT Next\nINVARIANTS %s\nCHECK_DEADLOCK TRUE\n", n, strings.Join(sk, ", "), invs)
		if props != "" {
			s = fmt.Sprintf("CONSTANTS\n  MaxMsgs = %d\n  Concurrency = 4\n  ScriptKinds = {%s}\nSPECIFICATION Spec\nINVARIANTS %s\nPROPERTIES %s\nCHECK_DEADLOCK TRUE\n", n, strings.Join(sk, ", "), invs, props)
		}
		return s
	}
	files := map[string][]byte{"DispatchTables.tla": []byte(tables)}
	// (A) the dispatcher + lock design: safety for all scripts of 3 messages, termination for scripts of 2
	n3 := 3
	stA, err := c.TLC(tlc.Run{Module: "Dispatch", Workers: 8, Timeout: 30 * time.Minute, Files: files,
		Cfg: cfg(n3, "MutualExclusion SemBound NtfOrder BarrierOK", "")}, nil)
	if err != nil || stA.ExitCode != 0 {
		c.Rep.Fatal(fmt.Sprintf("Dispatch.tla safety run failed (exit %d): %v\n%s", stA.ExitCode, err, lastLines(stA.Out, 15)))
		return
	}
	stL, err := c.TLC(tlc.Run{Module: "Dispatch", Workers: 4, Timeout: 30 * time.Minute, Files: files,
		Cfg: cfg(2, "MutualExclusion", "Terminates")}, nil)
	if err != nil || stL.ExitCode != 0 {
		c.Rep.Fatal(fmt.Sprintf("Dispatch.tla termination run failed (exit %d): %v\n%s", stL.ExitCode, err, lastLines(stL.Out, 15)))
		return
	}
	// (B) which pairs overlap, and where the model predicts a race
	predicted := map[pairKey]map[string]bool{}
	stB, err := c.TLC(tlc.Run{Module: "Dispatch", Workers: 4, Timeout: 30 * time.Minute, Files: files, Cfg: cfg(2, "Emit", "")},
		func(j json.RawMessage) {
			var o struct {
				Pairs []struct {
					A    string   `json:"a"`
					B    string   `json:"b"`
					Race []string `json:"race"`
				} `json:"pairs"`
			}
			if json.Unmarshal(j, &o) != nil {
				return
			}
			for _, p := range o.Pairs {
				k := pairKey{p.A, p.B}
				if predicted[k] == nil {
					predicted[k] = map[string]bool{}
				}
				for _, s := range p.Race {
					predicted[k][s] = true
				}
			}
		})
	if err != nil || stB.ExitCode != 0 {
		c.Rep.Fatal(fmt.Sprintf("Dispatch.tla pair run failed (exit %d): %v\n%s", stB.ExitCode, err, lastLines(stB.Out, 15)))
		return
	}
	npred := 0
	predList := []string{}
	for k, v := range predicted {
		if len(v) > 0 {
			npred++
			var ss []string
			for s := range v {
				ss = append(ss, s)
			}
			sort.Strings(ss)
			predList = append(predList, fmt.Sprintf("%s || %s : %s", k.a, k.b, strings.Join(ss, ",")))
		}
	}
	sort.Strings(predList)
	c.Rep.Extra["overlappable_ordered_pairs"] = len(predicted)
	c.Rep.Extra["pairs_with_predicted_race"] = predList
	// ---- the real binary under the race detector ----
	raceDriver := filepath.Join(c.Scratch, "lspdriver_race")
	if err := buildDriver(c.Root, raceDriver, true); err != nil {
		c.Rep.Fatal("cannot build the race-detector driver: " + err.Error())
		return
	}
	p := c.NewPool(8)
	p.Bin = raceDriver
	p.Budget = 120 * time.Second
	p.Env = []string{"GORACE=halt_on_error=0 log_path=" + filepath.Join(c.Scratch, "racelog")}
	big := c10BigDoc()
	reps := 6
	if c.Thorough() {
		reps = 25
	}
	var cases [][]*proto.Case
	pairOf := map[int]pairKey{}
	id := 0
	var keys []pairKey
	for k := range predicted {
		keys = append(keys, k)
	}
	sort.Slice(keys, func(i, j int) bool { return keys[i].a+keys[i].b < keys[j].a+keys[j].b })
	for _, k := range keys {
		id++
		pc := &proto.Case{ID: id, Files: map[string]string{"big.lua": big, "other.lua": "gother = 1\n", "second.lua": "local s2 = 1\nprint(s2)\n"}, Init: json.RawMessage(allOnLocal)}
		pc.Steps = append(pc.Steps, openStep("big.lua", big))
		if k.a == "textDocument/didClose" || k.b == "textDocument/didClose" {
			pc.Steps = append(pc.Steps, openStep("second.lua", "local s2 = 1\nprint(s2)\n"))
		}
		for r := 0; r < reps; r++ {
			// a first, b right behind it, without awaiting anything in between
			pc.Steps = append(pc.Steps, c10Msg(k.a, r, big), c10Msg(k.b, r+1, big), c10Msg(k.a, r+2, big))
			if k.a == "textDocument/didClose" || k.b == "textDocument/didClose" {
				pc.Steps = append(pc.Steps, proto.Step{M: "barrier"}, openStep("second.lua", "local s2 = 1\nprint(s2)\n"))
			}
		}
		pc.Steps = append(pc.Steps, proto.Step{M: "barrier"}, proto.Step{M: "racelog"})
		pairOf[id] = k
		cases = append(cases, []*proto.Case{pc})
	}
	seen := map[string]bool{}
	p.RunSlice(cases, func(pc *proto.Case, res *proto.Result) {
		k := pairOf[pc.ID]
		c.Rep.Eval(k.a + "||" + k.b)
		raw, _ := json.Marshal(map[string]interface{}{"fam": "dispatch-pair", "a": k.a, "b": k.b, "reps": reps})
		if res.Crash != "" || res.Hang {
			desc := fmt.Sprintf("with %s and %s in flight the server crashed or stopped answering (crash=%q hang=%v)", k.a, k.b, res.Crash, res.Hang)
			if strings.Contains(res.Crash, "concurrent map") {
				desc += " — concurrent map access"
			}
			c.Rep.Violation(raw, desc)
			return
		}
		var log string
		json.Unmarshal(res.Steps[len(res.Steps)-1].Peek, &log)
		for _, ro := range parseRaces(log, handlerNames) {
			var kinds []string
			for _, h := range ro.handlers {
				kinds = append(kinds, kindOfHandler[h])
			}
			sort.Strings(kinds)
			sig := strings.Join(kinds, " || ") + " @ " + strings.Join(ro.tops, " / ")
			if seen[sig] {
				continue
			}
			seen[sig] = true
			pred := "the extracted tables do NOT predict this race"
			for pk, v := range predicted {
				if len(v) > 0 && len(kinds) == 2 && ((pk.a == kinds[0] && pk.b == kinds[1]) || (pk.a == kinds[1] && pk.b == kinds[0])) {
					var ss []string
					for s := range v {
						ss = append(ss, s)
					}
					sort.Strings(ss)
					pred = "Dispatch.tla predicts a race on {" + strings.Join(ss, ",") + "} for this pair"
				}
			}
			desc := fmt.Sprintf("data race between handlers %s (accesses in %s); %s\n%s", strings.Join(kinds, " and "), strings.Join(ro.tops, " / "), pred, ro.text)
			dev := "Race_" + strings.Join(ro.handlers, "_")
			if surveyMode {
				sv.add(strings.Join(kinds, " || "), sig)
				continue
			}
			c.Rep.Deviation(dev, desc, raw)
		}
		c.Rep.Sample(map[string]interface{}{"pair": []string{k.a, k.b}, "messages": len(pc.Steps)}, 4)
	})
	c.Rep.Traces = int64(len(cases))
	c.Rep.Extra["distinct_race_signatures_observed"] = len(seen)
	if !surveyMode || os.Getenv("VERIF_LIN") != "" {
		c10Serialisable(c, keys2pairs(keys), big)
	}
	c.poolStats(p)
	if surveyMode {
		sv.dump()
	}
}

// canon sorts every array of a decoded JSON value by the canonical text of its elements.
func canon(v interface{}) interface{} {
	switch x := v.(type) {
	case []interface{}:
		var ss []string
		for _, e := range x {
			b, _ := json.Marshal(canon(e))
			ss = append(ss, string(b))
		}
		sort.Strings(ss)
		out := make([]interface{}, len(ss))
		for i, t := range ss {
			out[i] = json.RawMessage(t)
		}
		return out
	case map[string]interface{}:
		m := map[string]interface{}{}
		for k, e := range x {
			if k == "sortText" || k == "data" {
				continue // ranking / cache index: presentation, not content
			}
			m[k] = canon(e)
		}
		return m
	}
	return v
}
