package main

import (
	"encoding/json"
	"fmt"
	"os"
	"regexp"
	"sort"
	"strings"

	"verifharness/internal/pool"
	"verifharness/internal/proto"
)

func init() { registry["C19"] = checkC19 }

type docSym struct {
	Name     string   `json:"name"`
	Kind     int      `json:"kind"`
	Range    rng      `json:"range"`
	Children []docSym `json:"children"`
}

type rng struct {
	Start struct{ Line, Character int } `json:"start"`
	End   struct{ Line, Character int } `json:"end"`
}

type wsSym struct {
	Name     string `json:"name"`
	Location struct {
		URI   string `json:"uri"`
		Range rng    `json:"range"`
	} `json:"location"`
}

type c19Data struct {
	tc     *scCase
	r      *scRender
	dsStep []int          // documentSymbol per file
	wsStep map[string]int // workspace/symbol per queried name
	inGF   []bool         // per item: inside the body of a global function statement (function g / g.f / g:m)
	msStep []c19MQ        // workspace/symbol queries for the qualified names of member functions
}

// inGlobalFuncBody computes, per item, whether it lies inside the body of a global function statement: function g(..) or a
// member function of a global table, function g.f(..) / g:m(..).
func inGlobalFuncBody(items []scItem) []bool {
	out := make([]bool, len(items))
	var stack []bool // per open block: does it (or an enclosing block) belong to a global function statement
	for i, it := range items {
		cur := len(stack) > 0 && stack[len(stack)-1]
		out[i] = cur
		switch it.K {
		case "file":
			stack = nil
		case "do", "while", "if", "repeat", "fornum", "forin", "lfunc", "lefunc", "cfunc":
			stack = append(stack, cur)
		case "gfunc":
			stack = append(stack, cur || it.Nb == 0)
		case "meth":
			stack = append(stack, cur || it.Tb == 0)
		case "end", "until", "untilc":
			if len(stack) > 0 {
				stack = stack[:len(stack)-1]
			}
		}
	}
	return out
}

// c19MQ is one workspace/symbol query about a member function: the occurrence of its name, the step, the query text.
type c19MQ struct {
	occ, step int
	q         string
}

// methSpecified: a member function of a global table name that has no top-level definition in the workspace is left open
// (the program cannot run; there is no table the member could be listed under); so is a member of a name that holds a
// function.
func (d *c19Data) methSpecified(o *occ) bool {
	it := d.tc.Items[o.Item]
	if it.Tb != 0 {
		// a local that holds a function value is not a table of functions
		if dc := d.r.DeclAt[it.Tb]; dc != nil && (dc.Kind == "lfunc" || dc.Kind == "lefunc") {
			return false
		}
		return true
	}
	for k := range d.r.Occ {
		if g := &d.r.Occ[k]; g.Role == "gdef" && g.Kind == "gfunc" && g.Name == d.methTable(o) {
			return false
		}
	}
	// a top-level definition of the table in another file, or earlier in this file (a member function written before
	// the only definition of its table indexes nil when it runs)
	for k := range d.r.Occ {
		g := &d.r.Occ[k]
		if g.Role != "gdef" || g.Name != d.methTable(o) || !d.tc.Items[g.Item].Top {
			continue
		}
		if g.File != o.File || g.Line < o.Line || (g.Line == o.Line && g.Col < o.Col) {
			return true
		}
	}
	return false
}

// methForeign: the member function's table is a global whose top-level definitions all lie in other files.
func (d *c19Data) methForeign(o *occ) bool {
	it := d.tc.Items[o.Item]
	if it.Tb != 0 {
		return false
	}
	for _, g := range d.tc.GDefs {
		if c14Global(g.N) == d.methTable(o) && g.Top && g.File == o.File+1 {
			return false
		}
	}
	return true
}

// methTable returns the spelling of the table in the header of the method definition whose name occurrence is o.
func (d *c19Data) methTable(o *occ) string {
	for k := range d.r.Occ {
		if t := &d.r.Occ[k]; t.Item == o.Item && t.Slot == "t" {
			return t.Name
		}
	}
	return ""
}

func c19Build(id int, raw json.RawMessage) *Job {
	var tc scCase
	if json.Unmarshal(raw, &tc) != nil {
		return nil
	}
	items := c14Rename(&tc)
	// locals that are never assigned again may carry a <const> attribute (every second one, by position); every method
	// definition gets its own name
	scMarkAttr(items)
	for i := range items {
		if it := &items[i]; it.K == "meth" {
			it.MName = fmt.Sprintf("mm%d", i)
		}
	}
	r := scRenderProg(items)
	pc := &proto.Case{ID: id, Files: r.files(), Init: json.RawMessage(allOnLocal)}
	for i, f := range r.Files {
		pc.Steps = append(pc.Steps, openStep(f, r.Text[i]))
	}
	d := &c19Data{tc: &tc, r: r, wsStep: map[string]int{}, inGF: inGlobalFuncBody(items)}
	for _, f := range r.Files {
		pc.Steps = append(pc.Steps, proto.Step{M: "textDocument/documentSymbol", P: json.RawMessage(fmt.Sprintf(`{"textDocument":{"uri":"file://$ROOT/%s"}}`, f))})
		d.dsStep = append(d.dsStep, len(pc.Steps)-1)
	}
	for i := range r.Occ {
		o := &r.Occ[i]
		if o.Role == "gdef" || (o.Role == "decl" && (o.Kind == "lfunc" || o.Kind == "lefunc")) {
			if _, ok := d.wsStep[o.Name]; !ok {
				pc.Steps = append(pc.Steps, proto.Step{M: "workspace/symbol", P: json.RawMessage(fmt.Sprintf(`{"query":%s}`, jstr(o.Name)))})
				d.wsStep[o.Name] = len(pc.Steps) - 1
			}
		}
		if o.Role == "mdef" {
			// a member function is asked for by its qualified name, written with a dot
			qs := []string{d.methTable(o) + "." + o.Name}
			if items[o.Item].Colon {
				// a method is also asked for the way it is written and shown in the outline
				qs = append(qs, d.methTable(o)+":"+o.Name)
			}
			for _, q := range qs {
				pc.Steps = append(pc.Steps, proto.Step{M: "workspace/symbol", P: json.RawMessage(fmt.Sprintf(`{"query":%s}`, jstr(q)))})
				d.msStep = append(d.msStep, c19MQ{i, len(pc.Steps) - 1, q})
			}
		}
	}
	return &Job{PC: pc, Data: d}
}

var reSymName = regexp.MustCompile(`^(?:local )?([A-Za-z_][A-Za-z_0-9.:]*)`)

func flatten(ss []docSym, out *[]docSym) {
	for _, s := range ss {
		*out = append(*out, s)
		flatten(s.Children, out)
	}
}

func rangeContains(r rng, line, col, n int) bool {
	s := r.Start.Line < line || (r.Start.Line == line && r.Start.Character <= col)
	e := r.End.Line > line || (r.End.Line == line && r.End.Character >= col+n)
	return s && e
}

func c19Judge(c *Ctx, j *Job, res *proto.Result) {
	d := j.Data.(*c19Data)
	c.Rep.Eval(string(j.Raw))
	if res.Crash != "" || res.Hang {
		c.Rep.Violation(j.Raw, fmt.Sprintf("server died or hung (crash=%q hang=%v) on program:\n%s", res.Crash, res.Hang, progText(d.r)))
		return
	}
	var prob []string
	devs := map[string]string{}
	// ---- document outline, per file ----
	for fi, f := range d.r.Files {
		var top []docSym
		if rp := res.Steps[d.dsStep[fi]].Reply; len(rp) > 0 && string(rp) != "null" {
			if err := json.Unmarshal(rp, &top); err != nil {
				prob = append(prob, "documentSymbol reply not understood: "+string(rp))
				continue
			}
		}
		var all []docSym
		flatten(top, &all)
		nlines := len(d.r.Lines[fi])
		flines := lspLines(d.r.Text[fi])
		byName := map[string][]docSym{}
		for _, s := range all {
			m := reSymName.FindStringSubmatch(s.Name)
			if m != nil {
				byName[m[1]] = append(byName[m[1]], s)
			}
			// well-formed and inside the file, for every entry
			if s.Range.Start.Line > s.Range.End.Line || (s.Range.Start.Line == s.Range.End.Line && s.Range.Start.Character > s.Range.End.Character) {
				prob = append(prob, fmt.Sprintf("%s: outline entry %q has start after end %v", f, s.Name, s.Range))
			} else if _, inDoc := rangeText(flines, s.Range.Start.Line, s.Range.Start.Character, s.Range.End.Line, s.Range.End.Character); !inDoc || s.Range.End.Line > nlines {
				prob = append(prob, fmt.Sprintf("%s: outline entry %q lies outside the file %v", f, s.Name, s.Range))
			}
		}
		seenG := map[string]bool{}
		for i := range d.r.Occ {
			o := &d.r.Occ[i]
			if o.File != fi {
				continue
			}
			it := d.tc.Items[o.Item]
			required := false
			what := ""
			switch {
			case o.Role == "decl" && o.Kind == "local" && it.Top:
				required, what = true, "top-level local"
			case o.Role == "decl" && (o.Kind == "lfunc" || o.Kind == "lefunc") && !it.InFn:
				required, what = true, "function"
			case o.Role == "decl" && (o.Kind == "lfunc" || o.Kind == "lefunc") && it.InFn:
				// nested inside a function body
				if len(byName[o.Name]) == 0 {
					devs["Dev_OutlineOmitsNestedFunctions"] = fmt.Sprintf("%s: function %s declared inside a function body is not in the outline", f, o.Name)
				}
				continue
			case o.Role == "mdef":
				// function t.f / t:m : listed under its qualified name (either separator), range containing the member name
				if !d.methSpecified(o) {
					continue
				}
				var es []docSym
				for _, sep := range []string{".", ":"} {
					es = append(es, byName[d.methTable(o)+sep+o.Name]...)
				}
				es = append(es, byName[o.Name]...)
				if len(es) == 0 {
					if it.InFn {
						devs["Dev_OutlineOmitsNestedFunctions"] = fmt.Sprintf("%s: member function %s.%s defined inside a function body is not in the outline", f, d.methTable(o), o.Name)
					} else if d.methForeign(o) {
						devs["Dev_OutlineOmitsMembersOfForeignTables"] = fmt.Sprintf("%s: member function %s.%s is not in the outline of the file that defines it; its table is defined in another file", f, d.methTable(o), o.Name)
					} else {
						prob = append(prob, fmt.Sprintf("%s: member function %s.%s (line %d) is missing from the outline", f, d.methTable(o), o.Name, o.Line))
					}
					continue
				}
				okm := false
				for _, e := range es {
					if rangeContains(e.Range, o.Line, o.Col, len(o.Name)) {
						okm = true
					}
				}
				if !okm {
					prob = append(prob, fmt.Sprintf("%s: outline range %v of member function %s.%s does not contain its declaring identifier at %d:%d", f, es[0].Range, d.methTable(o), o.Name, o.Line, o.Col))
				}
				continue
			case o.Role == "gdef" && !seenG[o.Name]:
				required, what = true, "global"
				if o.Kind == "gfunc" {
					what = "function"
				}
			}
			if !required {
				continue
			}
			if o.Role == "gdef" {
				seenG[o.Name] = true
			}
			es := byName[o.Name]
			if len(es) == 0 {
				prob = append(prob, fmt.Sprintf("%s: %s %s (line %d) is missing from the outline", f, what, o.Name, o.Line))
				continue
			}
			okRange := false
			for _, e := range es {
				// any declaration of that name in this file may be the one the entry points at
				for k := range d.r.Occ {
					oo := &d.r.Occ[k]
					if oo.File == fi && oo.Name == o.Name && (oo.Role == "decl" || oo.Role == "gdef") && rangeContains(e.Range, oo.Line, oo.Col, len(oo.Name)) {
						okRange = true
					}
				}
			}
			if !okRange {
				e := es[0]
				if o.Kind == "lefunc" && e.Range.Start.Line == o.Line && e.Range.Start.Character > o.Col {
					devs["Dev_OutlineRangeOfFunctionValue"] = fmt.Sprintf("%s: outline range of %s is %v, the declaring identifier is at %d:%d", f, o.Name, e.Range, o.Line, o.Col)
					continue
				}
				prob = append(prob, fmt.Sprintf("%s: outline range %v of %s %s does not contain its declaring identifier at %d:%d", f, e.Range, what, o.Name, o.Line, o.Col))
			}
		}
	}
	// ---- workspace symbols ----
	for name, st := range d.wsStep {
		var ws []wsSym
		if rp := res.Steps[st].Reply; len(rp) > 0 && string(rp) != "null" {
			json.Unmarshal(rp, &ws)
		}
		found := false
		for _, w := range ws {
			if w.Name != name {
				continue
			}
			f := strings.TrimPrefix(strings.TrimPrefix(w.Location.URI, "file://"), res.Root+"/")
			for k := range d.r.Occ {
				oo := &d.r.Occ[k]
				if d.r.Files[oo.File] == f && oo.Name == name && (oo.Role == "decl" || oo.Role == "gdef") && rangeContains(w.Location.Range, oo.Line, oo.Col, len(oo.Name)) {
					found = true
				}
			}
		}
		if !found {
			// as-built: local functions declared inside the body of a global function statement are not indexed
			allInGF := true
			for k := range d.r.Occ {
				oo := &d.r.Occ[k]
				if oo.Name == name && (oo.Role == "decl" || oo.Role == "gdef") && !(oo.Role == "decl" && d.inGF[oo.Item]) {
					allInGF = false
				}
			}
			if allInGF {
				devs["Dev_WorkspaceSymbolSkipsLocalsOfGlobalFunctions"] = fmt.Sprintf("workspace/symbol %q finds nothing; it is a local function declared inside a global function's body", name)
				continue
			}
			var names []string
			for _, w := range ws {
				names = append(names, fmt.Sprintf("%s@%d:%d", w.Name, w.Location.Range.Start.Line, w.Location.Range.Start.Character))
			}
			prob = append(prob, fmt.Sprintf("workspace/symbol %q returns no entry located at a declaration of that name (entries: %s)", name, strings.Join(names, " ")))
		}
	}
	for _, ms := range d.msStep {
		o := &d.r.Occ[ms.occ]
		if !d.methSpecified(o) {
			continue
		}
		tbl := d.methTable(o)
		var ws []wsSym
		if rp := res.Steps[ms.step].Reply; len(rp) > 0 && string(rp) != "null" {
			json.Unmarshal(rp, &ws)
		}
		found := false
		var names []string
		for _, w := range ws {
			names = append(names, fmt.Sprintf("%s@%d:%d", w.Name, w.Location.Range.Start.Line, w.Location.Range.Start.Character))
			if w.Name != tbl+"."+o.Name && w.Name != tbl+":"+o.Name && w.Name != o.Name {
				continue
			}
			f := strings.TrimPrefix(strings.TrimPrefix(w.Location.URI, "file://"), res.Root+"/")
			if d.r.Files[o.File] == f && rangeContains(w.Location.Range, o.Line, o.Col, len(o.Name)) {
				found = true
			}
		}
		if !found && d.inGF[o.Item] {
			devs["Dev_WorkspaceSymbolSkipsLocalsOfGlobalFunctions"] = fmt.Sprintf("workspace/symbol %q finds nothing; it is a member function defined inside a global function's body", ms.q)
			continue
		}
		if !found {
			prob = append(prob, fmt.Sprintf("workspace/symbol %q returns no entry located at the definition of that member function at %s %d:%d (entries: %s)", ms.q, d.r.Files[o.File], o.Line, o.Col, strings.Join(names, " ")))
		}
	}
	for dv, ex := range devs {
		c.Rep.Deviation(dv, ex+"\n"+progText(d.r), j.Raw)
	}
	if len(prob) == 0 {
		return
	}
	sort.Strings(prob)
	desc := strings.Join(prob, "; ") + "\n" + progText(d.r)
	if surveyMode {
		for _, p := range prob {
			p = regexp.MustCompile(`[0-9]+`).ReplaceAllString(p, "N")
			p = regexp.MustCompile(`p[abc]N|pg[ab]`).ReplaceAllString(p, "X")
			if len(p) > 90 {
				p = p[:90]
			}
			sv.add(p, desc)
		}
		return
	}
	c.Rep.Violation(j.Raw, desc)
}

func checkC19(c *Ctx) {
	c.Rep.Rule = "Scope.tla programs rendered with unique declaration names; documentSymbol of every file and workspace/symbol for the exact name of every global and function are requested on a fresh real server; every top-level local (with and without a <const> attribute), every global and every function (member functions t.f / t:m included) not nested in a function body must be in the outline with a well-formed in-file range containing its declaring identifier, and each workspace query (member functions by their qualified name) must return an entry located at a declaration of that name; three hand-sized files with 150, 240 and 420 symbols ask exact-name queries for declarations before and after the bulk"
	c.Rep.Assumptions = []string{
		"outline names are compared after removing the documented decoration ('local ' prefix, '(params)' suffix)",
		"a member function (function t.f / function t:m) is looked for under its qualified name with either separator, and queried as t.f",
		"every second never-reassigned local with an initialiser is written with a <const> attribute",
	}
	scLight = true
	scNoOneLine = true
	if c.Replay != "" {
		raw, err := loadReplayCase(c.Replay)
		if err != nil {
			c.Rep.Fatal(err.Error())
			return
		}
		if projReplay(c, raw, "outline wsym") {
			return
		}
		jb := c19Build(1, raw)
		jb.Raw = raw
		p := c.NewPool(1)
		p.RunSlice([][]*proto.Case{{jb.PC}}, func(_ *proto.Case, r *proto.Result) { c19Judge(c, jb, r) })
		c.Rep.Sample(map[string]interface{}{"replayed": raw}, 1)
		return
	}
	p := c.NewPool(0)
	scKinds = scAllKinds
	scCoreKinds = `{"local","use","assign","do","lfunc","lefunc","gfunc","meth"}`
	if os.Getenv("VERIF_ONLY") != "big" { // (development aid)
		scopeRuns(c, p, c19Build, func(j *Job, r *proto.Result) { c19Judge(c, j, r) })
	}
	c19BigFiles(c, p)
	// Project.tla: workspaces analysed as a project (entry file + what it requires), both modes
	projectRuns(c, p, 0, "outline wsym")
	c.poolStats(p)
	if surveyMode {
		sv.dump()
	}
}

// c19BigFiles: files with more symbols than the workspace search keeps per file (200): an exact-name query must still find
// its declaration, wherever in the file it stands.
func c19BigFiles(c *Ctx, p *pool.Pool) {
	var groups [][]*proto.Case
	type want struct {
		q, name   string
		line, col int
	}
	wants := map[int][]want{}
	for id, n := range []int{150, 240, 420} {
		var sb strings.Builder
		var ws []want
		sb.WriteString("local function first_fn(a) return a end\nMsg = {}\n")
		ws = append(ws, want{"first_fn", "first_fn", 0, 15})
		for i := 0; i < n; i++ {
			fmt.Fprintf(&sb, "Msg.f%03d = %d\n", i, i)
		}
		base := 2 + n
		sb.WriteString("local function lookup(k) return Msg[k] end\nlocal Cache = {}\nfunction Cache.clear() end\nfunction Cache:fill(n) return n end\nfunction after_big(a) return a end\nlast_global = 1\nprint(first_fn, lookup, Cache, after_big, last_global)\n")
		ws = append(ws, want{"lookup", "lookup", base, 15}, want{"Cache.clear", "Cache.clear", base + 2, 15}, want{"Cache:fill", "Cache.fill", base + 3, 15},
			want{"after_big", "after_big", base + 4, 9}, want{"last_global", "last_global", base + 5, 0}, want{fmt.Sprintf("Msg.f%03d", n-1), fmt.Sprintf("Msg.f%03d", n-1), 2 + n - 1, 4})
		text := sb.String()
		pc := &proto.Case{ID: 9000 + id, Files: map[string]string{"big.lua": text, "small.lua": "function small_fn() end\n"}, Init: json.RawMessage(allOnLocal)}
		pc.Steps = append(pc.Steps, openStep("big.lua", text))
		for _, w := range ws {
			pc.Steps = append(pc.Steps, proto.Step{M: "workspace/symbol", P: json.RawMessage(fmt.Sprintf(`{"query":%s}`, jstr(w.q)))})
		}
		wants[pc.ID] = ws
		groups = append(groups, []*proto.Case{pc})
	}
	// tables that get their members in other ways than "T = {} ; function T.f()": a table declared first without a value
	// and given a constructor later, and a global table created (with its members) inside a function body
	{
		text := "local M\nM = { start = function() end, stop = function(a) return a end }\nRegistry = nil\nRegistry = { lookup = function(k) return k end }\n" +
			"function init()\n  Registry2 = {}\n  function Registry2.add(p) return p end\n  function Registry2:reset() end\n  Registry2.count = function() return 0 end\nend\nprint(M, Registry, init)\n"
		ws := []want{{"M.start", "M.start", 1, 6}, {"M.stop", "M.stop", 1, 31}, {"Registry.lookup", "Registry.lookup", 3, 13},
			{"Registry2.add", "Registry2.add", 6, 21}, {"Registry2:reset", "Registry2.reset", 7, 21}, {"Registry2.count", "Registry2.count", 8, 12}, {"init", "init", 4, 9}}
		pc := &proto.Case{ID: 9100, Files: map[string]string{"big.lua": text, "small.lua": "function small_fn() end\n"}, Init: json.RawMessage(allOnLocal)}
		pc.Steps = append(pc.Steps, openStep("big.lua", text))
		for _, w := range ws {
			pc.Steps = append(pc.Steps, proto.Step{M: "workspace/symbol", P: json.RawMessage(fmt.Sprintf(`{"query":%s}`, jstr(w.q)))})
		}
		wants[pc.ID] = ws
		groups = append(groups, []*proto.Case{pc})
	}
	p.RunSlice(groups, func(pc *proto.Case, res *proto.Result) {
		raw, _ := json.Marshal(map[string]interface{}{"fam": "bigfile", "id": pc.ID})
		c.Rep.Eval(string(raw))
		if res.Crash != "" || res.Hang {
			c.Rep.Violation(raw, fmt.Sprintf("server died or hung on a file with many symbols (crash=%q)", res.Crash))
			return
		}
		var prob []string
		for k, w := range wants[pc.ID] {
			var ws []wsSym
			if rp := res.Steps[1+k].Reply; len(rp) > 0 && string(rp) != "null" {
				json.Unmarshal(rp, &ws)
			}
			found := false
			for _, e := range ws {
				if (e.Name == w.name || e.Name == w.q) && strings.HasSuffix(e.Location.URI, "/big.lua") && rangeContains(e.Location.Range, w.line, w.col, 1) {
					found = true
				}
			}
			if !found && strings.Contains(w.q, ":") && len(ws) >= 200 {
				// as-built: the matcher compares the query with dotted names; a colon spelling matches nothing and the
				// method is returned only while the unranked result list is not cut
				c.Rep.Deviation("Dev_ColonSpellingNotMatched", fmt.Sprintf("workspace/symbol %q in a file with more than 200 symbols returns %d entries, none located at the method's declaration at big.lua %d:%d", w.q, len(ws), w.line, w.col), raw)
				continue
			}
			if !found {
				var names []string
				for _, e := range ws {
					if len(names) < 6 {
						names = append(names, fmt.Sprintf("%s@%d:%d", e.Name, e.Location.Range.Start.Line, e.Location.Range.Start.Character))
					}
				}
				prob = append(prob, fmt.Sprintf("workspace/symbol %q returns %d entries %v, none located at the declaration at big.lua %d:%d", w.q, len(ws), names, w.line, w.col))
			}
		}
		if len(prob) == 0 {
			return
		}
		desc := fmt.Sprintf("file with %d lines of symbols: %s", strings.Count(pc.Files["big.lua"], "\n"), strings.Join(prob, "; "))
		if surveyMode {
			sv.add("bigfile "+firstWords(prob[0], 3), desc)
			return
		}
		c.Rep.Violation(raw, desc)
	})
}
