package main

import (
	"bytes"
	"encoding/json"
	"fmt"
	"os"
	"strings"
	"sync"

	"verifharness/internal/pool"
	"verifharness/internal/proto"
	"verifharness/internal/tlc"
)

func lastLines(s string, n int) string {
	l := strings.Split(strings.TrimRight(s, "\n"), "\n")
	if len(l) > n {
		l = l[len(l)-n:]
	}
	return strings.Join(l, "\n")
}

// loadReplayCase reads the abstract case stored in a replay file.
func loadReplayCase(path string) (json.RawMessage, error) {
	b, err := os.ReadFile(path)
	if err != nil {
		return nil, err
	}
	var o struct {
		Case json.RawMessage `json:"case"`
	}
	if err := json.Unmarshal(b, &o); err != nil {
		return nil, err
	}
	if len(o.Case) == 0 {
		return nil, fmt.Errorf("replay file %s has no case", path)
	}
	// the replay file is indented; the seeded choices (layout, arrival mode) hash the behaviour as TLC printed it
	var buf bytes.Buffer
	if json.Compact(&buf, o.Case) == nil {
		return json.RawMessage(buf.Bytes()), nil
	}
	return o.Case, nil
}

// Job is one TLC behaviour turned into a driver case.
type Job struct {
	Raw  json.RawMessage
	PC   *proto.Case
	Data interface{}
}

// streamRun runs TLC, builds a driver case per printed behaviour, runs them on the pool while TLC
// is still producing, and judges each result. Returns false if the tooling failed (already recorded).
func (c *Ctx) streamRun(name string, r tlc.Run, p *pool.Pool, groupSize int,
	build func(id int, raw json.RawMessage) *Job, judge func(j *Job, r *proto.Result)) bool {
	groups := make(chan []*proto.Case, 256)
	var mu sync.Mutex
	jobs := map[int]*Job{}
	id := 0
	var batch []*proto.Case
	var tstats tlc.Stats
	var terr error
	go func() {
		tstats, terr = c.TLC(r, func(j json.RawMessage) {
			id++
			cp := append(json.RawMessage{}, j...)
			jb := build(id, cp)
			if jb == nil {
				return
			}
			jb.Raw = cp
			jb.PC.ID = id
			mu.Lock()
			jobs[id] = jb
			mu.Unlock()
			batch = append(batch, jb.PC)
			if len(batch) >= groupSize {
				groups <- batch
				batch = nil
			}
		})
		if len(batch) > 0 {
			groups <- batch
		}
		close(groups)
	}()
	n := 0
	perr := p.Run(groups, func(pc *proto.Case, res *proto.Result) {
		mu.Lock()
		jb := jobs[pc.ID]
		delete(jobs, pc.ID)
		mu.Unlock()
		if jb == nil {
			return
		}
		n++
		judge(jb, res)
		c.Rep.Sample(map[string]interface{}{"run": name, "behaviour": jb.Raw}, 4)
	})
	c.Rep.Traces += int64(n)
	if terr != nil || perr != nil || (tstats.ExitCode != 0 && tstats.JLines == 0) {
		c.Rep.Fatal(fmt.Sprintf("%s: TLC/pool failure: %v %v exit=%d\n%s", name, terr, perr, tstats.ExitCode, lastLines(tstats.Out, 15)))
		return false
	}
	if tstats.ExitCode != 0 {
		c.Rep.Inconclusive(fmt.Sprintf("%s: TLC exit %d after %d behaviours: %s", name, tstats.ExitCode, tstats.JLines, lastLines(tstats.Out, 5)))
	}
	c.Rep.Extra["run_"+name] = map[string]interface{}{"tlc_generated": tstats.Generated, "tlc_distinct": tstats.Distinct, "behaviours": tstats.JLines, "replayed": n, "tlc_wall_s": tstats.WallS}
	return true
}

// poolStats copies pool statistics into the evidence.
func (c *Ctx) poolStats(p *pool.Pool) {
	c.Rep.Extra["server_cases"] = p.Cases
	c.Rep.Extra["server_crashes"] = p.Crashes
	c.Rep.Extra["server_hangs"] = p.Hangs
	c.Rep.Extra["cases_repeated_after_silence"] = p.Retried
	c.Rep.Extra["max_step_ms"] = p.MaxMs
}
