package main

import (
	"bytes"
	"encoding/json"
	"fmt"
	"os"
	"sort"
	"strings"
	"time"

	"verifharness/internal/proto"
	"verifharness/internal/tlc"
)

func init() { registry["C08"] = checkC08 }

// ---- LspWorkspace.tla events and their dumb rendering ----

type wsEvent struct {
	Ev string `json:"ev"`
	F  string `json:"f"`
	V  string `json:"v"`
	W  bool   `json:"w"`
}

type wsCase struct {
	Fam   string            `json:"fam"`
	Disk0 map[string]string `json:"disk0"`
	Hist  []wsEvent         `json:"hist"`
}

var wsFileName = map[string]string{"f1": "f1.lua", "f2": "f2.lua", "f3": "sub/f3.lua"}

func wsText(f, v string) string {
	switch v {
	case "clean":
		return "local x = 1\nprint(x)\n"
	case "syn":
		return "local x = \n"
	case "warn":
		return "local unused = 1\n"
	case "defg":
		return "gshared = 1\n"
	case "useg":
		return "print(gshared)\n"
	case "req2":
		if f == "f2" {
			return "require(\"f1\")\n"
		}
		return "require(\"f2\")\n"
	case "req3":
		if f == "f3" {
			return "require(\"f1\")\n"
		}
		return "require(\"sub.f3\")\n"
	case "dof2":
		// the file is named with its suffix: resolved by looking at the disk, not by the module table
		if f == "f2" {
			return "dofile(\"f1.lua\")\n"
		}
		return "dofile(\"f2.lua\")\n"
	}
	return ""
}

func watched(file string, typ int) proto.Step {
	return proto.Step{M: "workspace/didChangeWatchedFiles", N: true,
		// (the client watches the whole workspace: the batch also carries an event for a file that is not Lua, first)
		P: json.RawMessage(fmt.Sprintf(`{"changes":[{"uri":"file://$ROOT/notes.txt","type":2},{"uri":"file://$ROOT/%s","type":%d}]}`, file, typ))}
}

type tdiag struct {
	T int    `json:"t"`
	K string `json:"k"`
}

type wsView map[string][]tdiag // abstract file -> diagnostics

func viewOf(root string, v map[string][]diag) wsView {
	out := wsView{"f1": {}, "f2": {}, "f3": {}}
	for af, fn := range wsFileName {
		ds := v[fn]
		var r []tdiag
		for _, x := range ds {
			msg := strings.ReplaceAll(x.Msg, root, "$ROOT")
			r = append(r, tdiag{x.Type, fmt.Sprintf("%d@%d:%d-%d:%d %s", x.Type, x.SL, x.SC, x.EL, x.EC, msg)})
		}
		sort.Slice(r, func(i, j int) bool { return r[i].K < r[j].K })
		if r == nil {
			r = []tdiag{}
		}
		out[af] = r
	}
	return out
}

type wsRun struct {
	raw      json.RawMessage
	tc       *wsCase
	lastStep []int    // per event: index of its last driver step
	views    []wsView // client view after start-up (index 0) and after each event
	disks    []map[string]string
	bufs     []map[string]string
	dead     bool
	qsteps   []wsQStep // the query bundle asked after the last event
	qans     map[string][]string
}

// wsQStep is one query of the bundle: which abstract file its answer is filed under ("ws" for workspace-wide ones).
type wsQStep struct {
	key   string
	label string
	step  int
}

// wsQueries is the fixed bundle of read-only questions asked about a disk state: hover, definition and references at the
// three columns where the content variants have their identifiers / module string, the outline of every file, and two
// workspace symbol searches. Position questions are asked about open documents only.
func wsQueries(disk, bufs map[string]string) (steps []proto.Step, meta []wsQStep) {
	var fs []string
	for f := range disk {
		fs = append(fs, f)
	}
	sort.Strings(fs)
	for _, f := range fs {
		if disk[f] == "absent" || bufs[f] == "closed" || bufs[f] == "" {
			continue // an editor asks about documents it has open
		}
		fn := wsFileName[f]
		for _, col := range []int{0, 6, 9} {
			for _, m := range []string{"textDocument/hover", "textDocument/definition", "textDocument/references"} {
				p := posParams(fn, 0, col)
				if m == "textDocument/references" {
					p = refParams(fn, 0, col)
				}
				steps = append(steps, proto.Step{M: m, P: p})
				meta = append(meta, wsQStep{key: f, label: fmt.Sprintf("%s@0:%d", strings.TrimPrefix(m, "textDocument/"), col), step: len(steps) - 1})
			}
		}
		steps = append(steps, proto.Step{M: "textDocument/documentSymbol", P: json.RawMessage(fmt.Sprintf(`{"textDocument":{"uri":"file://$ROOT/%s"}}`, fn))})
		meta = append(meta, wsQStep{key: f, label: "outline", step: len(steps) - 1})
	}
	for _, q := range []string{"gshared", "x"} {
		steps = append(steps, proto.Step{M: "workspace/symbol", P: json.RawMessage(fmt.Sprintf(`{"query":%q}`, q))})
		meta = append(meta, wsQStep{key: "f1", label: "wsym:" + q, step: len(steps) - 1})
	}
	return
}

// wsAnswers files the digests of a bundle's answers under their abstract file.
func wsAnswers(root string, res *proto.Result, base int, meta []wsQStep) map[string][]string {
	out := map[string][]string{"f1": {}, "f2": {}, "f3": {}}
	for _, q := range meta {
		if base+q.step >= len(res.Steps) {
			continue
		}
		out[q.key] = append(out[q.key], q.label+"="+digest(root, &res.Steps[base+q.step]))
	}
	return out
}

func diskKey(d map[string]string) string {
	return d["f1"] + "|" + d["f2"] + "|" + d["f3"] + "|" + d["cfg"]
}

// wsProjectCfg: the configuration of the histories that run in project mode (f1.lua is the entry file).
const wsProjectCfg = `{"ShowWarnFlag":1,"ProjectFiles":["f1.lua"]}`

// wsPutFiles writes the files of a disk state (and its configuration) into a case.
func wsPutFiles(pc *proto.Case, d map[string]string) {
	for f, v := range d {
		if f == "cfg" {
			if v == "project" {
				pc.Files["luahelper.json"] = wsProjectCfg
			}
			continue
		}
		if v != "absent" {
			pc.Files[wsFileName[f]] = wsText(f, v)
		}
	}
}

func wsBuild(id int, raw json.RawMessage) *Job {
	var tc wsCase
	if json.Unmarshal(raw, &tc) != nil {
		return nil
	}
	pc := &proto.Case{ID: id, Files: map[string]string{}, Init: json.RawMessage(allOnLocal)}
	disk := map[string]string{}
	buf := map[string]string{}
	for f, v := range tc.Disk0 {
		disk[f] = v
		buf[f] = "closed"
	}
	// (project-mode histories -- f1.lua configured as entry file -- are switched off: a survey showed that the client's
	// view diverges from a fresh start whenever an event changes which files the entry requires, see DESIGN.md 11.3;
	// set VERIF_C08_PROJECT=1 to run them)
	if os.Getenv("VERIF_C08_PROJECT") == "1" && tc.Disk0["f1"] != "absent" && hash64(string(raw), 11)%3 == 0 {
		disk["cfg"] = "project"
	}
	wsPutFiles(pc, disk)
	// make sure the sub directory exists even when sub/f3.lua is absent (an empty directory is not a file event)
	run := &wsRun{tc: &tc}
	cp := func(m map[string]string) map[string]string {
		r := map[string]string{}
		for k, v := range m {
			r[k] = v
		}
		return r
	}
	run.disks = append(run.disks, cp(disk))
	run.bufs = append(run.bufs, cp(buf))
	ver := 1
	for _, e := range tc.Hist {
		fn := wsFileName[e.F]
		switch e.Ev {
		case "Create":
			disk[e.F] = e.V
			pc.Steps = append(pc.Steps, proto.Step{M: "fs.write", Path: fn, Text: wsText(e.F, e.V)}, watched(fn, 1))
		case "Modify":
			disk[e.F] = e.V
			pc.Steps = append(pc.Steps, proto.Step{M: "fs.write", Path: fn, Text: wsText(e.F, e.V)}, watched(fn, 2))
		case "Delete":
			disk[e.F] = "absent"
			pc.Steps = append(pc.Steps, proto.Step{M: "fs.delete", Path: fn}, watched(fn, 3))
		case "Open":
			buf[e.F] = disk[e.F]
			pc.Steps = append(pc.Steps, openStep(fn, wsText(e.F, disk[e.F])))
		case "Edit":
			buf[e.F] = e.V
			ver++
			pc.Steps = append(pc.Steps, proto.Step{M: "textDocument/didChange", N: true,
				P: json.RawMessage(fmt.Sprintf(`{"textDocument":{"uri":"file://$ROOT/%s","version":%d},"contentChanges":[{"text":%s}]}`, fn, ver, jstr(wsText(e.F, e.V))))})
		case "Save":
			disk[e.F] = buf[e.F]
			txt := wsText(e.F, buf[e.F])
			pc.Steps = append(pc.Steps, proto.Step{M: "fs.write", Path: fn, Text: txt},
				proto.Step{M: "textDocument/didSave", N: true, P: json.RawMessage(fmt.Sprintf(`{"textDocument":{"uri":"file://$ROOT/%s"},"text":%s}`, fn, jstr(txt)))})
			if e.W {
				pc.Steps = append(pc.Steps, watched(fn, 2))
			}
		case "Close":
			buf[e.F] = "closed"
			pc.Steps = append(pc.Steps, proto.Step{M: "textDocument/didClose", N: true, P: json.RawMessage(fmt.Sprintf(`{"textDocument":{"uri":"file://$ROOT/%s"}}`, fn))})
		}
		run.lastStep = append(run.lastStep, len(pc.Steps)-1)
		run.disks = append(run.disks, cp(disk))
		run.bufs = append(run.bufs, cp(buf))
	}
	// after the last event: the query bundle (compared with a fresh server's answers when no buffer is dirty there)
	qs, meta := wsQueries(disk, buf)
	base := len(pc.Steps)
	for i := range meta {
		meta[i].step += base
	}
	pc.Steps = append(pc.Steps, qs...)
	run.qsteps = meta
	return &Job{PC: pc, Data: run}
}

func checkC08(c *Ctx) {
	c.Rep.Rule = "TLC generates event histories of LspWorkspace.tla (exhaustive short histories from hand-picked and from all initial disks, simulated long walks); each is replayed on the real server in a real directory; the client's folded publishDiagnostics view after every event, the view of a fresh real server on the same disk and the buffer's syntax diagnostics are logged, and LspWorkspaceTrace.tla replays the log through the same actions and evaluates the Fresh and Dirty obligations at every step; distinct = distinct histories"
	c.Rep.Assumptions = []string{
		"content variants are rendered by a fixed table (clean, syntax error, unused local, defines/uses a shared global, requires f2 / sub.f3, dofile of f2.lua)",
		"external Modify/Delete only happen to files that are not open in the editor; Edit sends the full new text",
		"the Dirty obligation is asserted only while no disk event happened since the buffer became dirty (otherwise 'last saved' is ambiguous: UNSPECIFIED)",
		"fresh-server oracle is memoised per disk state; the answers to a fixed bundle of queries (hover, definition, references at three columns of line 0 of every file, every outline, two workspace symbol searches; compared as order-insensitive digests) are compared after the last event of every history",
	}
	p := c.NewPool(0)
	var runs []*Job
	judge := func(j *Job, res *proto.Result) {
		run := j.Data.(*wsRun)
		run.raw = j.Raw
		c.Rep.Eval(string(j.Raw))
		if res.Crash != "" || res.Hang {
			run.dead = true
			c.Rep.Violation(j.Raw, fmt.Sprintf("server died or hung during the history (crash=%q hang=%v at step %d)", res.Crash, res.Hang, res.AtStep))
			return
		}
		view := map[string][]diag{}
		foldDiags(res.Root, view, res.InitNtfs)
		run.views = append(run.views, viewOf(res.Root, view))
		si := 0
		for _, last := range run.lastStep {
			for ; si <= last; si++ {
				foldDiags(res.Root, view, res.Steps[si].Ntfs)
			}
			run.views = append(run.views, viewOf(res.Root, view))
		}
		run.qans = wsAnswers(res.Root, res, 0, run.qsteps)
		runs = append(runs, j)
		j.PC.Steps, j.PC.Files = nil, nil // (only the views and answers are needed from here on; the thorough tier keeps millions of runs)
	}
	cfg := func(mode string, maxHist int, invs string) string {
		return fmt.Sprintf("CONSTANTS\n  Files = {\"f1\",\"f2\",\"f3\"}\n  Variants = {\"clean\",\"syn\",\"warn\",\"defg\",\"useg\",\"req2\",\"req3\",\"dof2\"}\n  MaxHist = %d\n  InitMode = %q\nINIT Init\nNEXT Next\nINVARIANTS %s\nCHECK_DEADLOCK FALSE\n", maxHist, mode, invs)
	}
	if c.Replay != "" {
		raw, err := loadReplayCase(c.Replay)
		if err != nil {
			c.Rep.Fatal(err.Error())
			return
		}
		var fam struct {
			Fam string `json:"fam"`
		}
		if json.Unmarshal(raw, &fam) == nil && fam.Fam == "project" {
			scSeed = c.Seed
			projHistoryRuns(c, c.NewPool(3), 0, []json.RawMessage{raw})
			c.Rep.Sample(map[string]interface{}{"replayed": raw}, 1)
			return
		}
		jb := wsBuild(1, raw)
		jb.Raw = raw
		jb.PC.ID = 1
		p1 := c.NewPool(1)
		p1.RunSlice([][]*proto.Case{{jb.PC}}, func(_ *proto.Case, r *proto.Result) { judge(jb, r) })
	} else {
		bl := 2
		if c.Thorough() {
			bl = 3
		}
		if !c.streamRun("short_histories", tlc.Run{Module: "LspWorkspace", Workers: 8, Timeout: 30 * time.Minute,
			Cfg: cfg("some", bl, "TypeOK DirtyIsOpen Emit")}, p, 4, wsBuild, judge) {
			return
		}
		if !c.streamRun("one_event_all_disks", tlc.Run{Module: "LspWorkspace", Workers: 8, Timeout: 30 * time.Minute,
			Cfg: cfg("all", 1, "Emit")}, p, 4, wsBuild, judge) {
			return
		}
		num, depth := 300, 25
		if c.Thorough() {
			num, depth = 6000, 60
		}
		if !c.streamRun("walks_simulated", tlc.Run{Module: "LspWorkspace", Workers: 1, Timeout: 30 * time.Minute,
			Simulate: fmt.Sprintf("num=%d", num), Depth: depth + 1, Cfg: cfg("some", depth, "Emit")}, p, 4, wsBuild, judge) {
			return
		}
	}
	// ---- oracle: fresh real servers, memoised per disk state; syntax diagnostics per (file, variant) ----
	fresh := map[string]wsView{}
	var okeys []map[string]string
	for _, j := range runs {
		for _, d := range j.Data.(*wsRun).disks {
			k := diskKey(d)
			if _, ok := fresh[k]; !ok {
				fresh[k] = nil
				okeys = append(okeys, d)
			}
		}
	}
	var ocases [][]*proto.Case
	oidx := map[int]map[string]string{}
	for i, d := range okeys {
		pc := &proto.Case{ID: i + 1, Files: map[string]string{}, Init: json.RawMessage(allOnLocal)}
		wsPutFiles(pc, d)
		oidx[i+1] = d
		ocases = append(ocases, []*proto.Case{pc})
	}
	// query oracle: a fresh server on the final disk of a history that opens the same documents and is asked the same bundle
	freshQ := map[string]map[string][]string{}
	qkey := func(disk, bufs map[string]string) string {
		k := diskKey(disk) + "#"
		for _, f := range []string{"f1", "f2", "f3"} {
			if bufs[f] != "closed" && bufs[f] != "" && disk[f] != "absent" {
				k += f
			}
		}
		return k
	}
	type qst struct{ disk, bufs map[string]string }
	qidx := map[int]qst{}
	var qcases [][]*proto.Case
	for _, j := range runs {
		run := j.Data.(*wsRun)
		last := len(run.disks) - 1
		k := qkey(run.disks[last], run.bufs[last])
		if _, ok := freshQ[k]; ok {
			continue
		}
		freshQ[k] = nil
		pc := &proto.Case{ID: len(qcases) + 1, Files: map[string]string{}, Init: json.RawMessage(allOnLocal)}
		wsPutFiles(pc, run.disks[last])
		for _, f := range []string{"f1", "f2", "f3"} {
			if b := run.bufs[last][f]; b != "closed" && b != "" && run.disks[last][f] != "absent" {
				pc.Steps = append(pc.Steps, openStep(wsFileName[f], wsText(f, run.disks[last][f])))
			}
		}
		qidx[pc.ID] = qst{run.disks[last], run.bufs[last]}
		qs, _ := wsQueries(run.disks[last], run.bufs[last])
		pc.Steps = append(pc.Steps, qs...)
		qcases = append(qcases, []*proto.Case{pc})
	}
	po := c.NewPool(0)
	po.BaseDir += "o"
	po.RunSlice(ocases, func(pc *proto.Case, res *proto.Result) {
		view := map[string][]diag{}
		foldDiags(res.Root, view, res.InitNtfs)
		if res.Crash != "" || res.Hang {
			c.Rep.Violation(json.RawMessage(fmt.Sprintf("%q", diskKey(oidx[pc.ID]))), "fresh server died on disk "+diskKey(oidx[pc.ID])+": "+res.Crash)
			return
		}
		fresh[diskKey(oidx[pc.ID])] = viewOf(res.Root, view)
	})
	po.RunSlice(qcases, func(pc *proto.Case, res *proto.Result) {
		q := qidx[pc.ID]
		if res.Crash != "" || res.Hang {
			return
		}
		qs, meta := wsQueries(q.disk, q.bufs)
		freshQ[qkey(q.disk, q.bufs)] = wsAnswers(res.Root, res, len(pc.Steps)-len(qs), meta)
	})
	c.Rep.Extra["fresh_query_oracle_states"] = len(qcases)
	syn := map[string][]tdiag{} // "f|v" -> type-1 diagnostics of a workspace holding only that file
	var scases [][]*proto.Case
	sidx := map[int]string{}
	n := 0
	for f := range wsFileName {
		for _, v := range []string{"clean", "syn", "warn", "defg", "useg", "req2", "req3", "dof2"} {
			n++
			sidx[n] = f + "|" + v
			scases = append(scases, []*proto.Case{{ID: n, Files: map[string]string{wsFileName[f]: wsText(f, v)}, Init: json.RawMessage(allOnLocal)}})
		}
	}
	po.RunSlice(scases, func(pc *proto.Case, res *proto.Result) {
		view := map[string][]diag{}
		foldDiags(res.Root, view, res.InitNtfs)
		fv := strings.Split(sidx[pc.ID], "|")
		var r []tdiag
		for _, x := range viewOf(res.Root, view)[fv[0]] {
			if x.T == 1 {
				r = append(r, x)
			}
		}
		if r == nil {
			r = []tdiag{}
		}
		syn[sidx[pc.ID]] = r
	})
	c.Rep.Extra["fresh_oracle_disk_states"] = len(okeys)
	// ---- trace file and TLC validation, in batches ----
	type line struct {
		Ev     string              `json:"ev"`
		F      string              `json:"f,omitempty"`
		V      string              `json:"v,omitempty"`
		W      bool                `json:"w"`
		Disk   map[string]string   `json:"disk,omitempty"`
		Run    int                 `json:"run"`
		Step   int                 `json:"step"`
		Client wsView              `json:"client"`
		Fresh  wsView              `json:"fresh"`
		Syn    wsView              `json:"syn"`
		Q      bool                `json:"q"` // the query bundle was asked after this event
		QC     map[string][]string `json:"qclient"`
		QF     map[string][]string `json:"qfresh"`
	}
	byID := map[int]*Job{}
	validate := func(batch []*Job) bool {
		var buf bytes.Buffer
		nlines := 0
		for _, j := range batch {
			run := j.Data.(*wsRun)
			byID[j.PC.ID] = j
			for k := 0; k <= len(run.tc.Hist); k++ {
				ln := line{Run: j.PC.ID, Step: k, Client: run.views[k], Fresh: fresh[diskKey(run.disks[k])], Syn: wsView{}}
				if ln.Fresh == nil {
					ln.Fresh = wsView{"f1": {}, "f2": {}, "f3": {}}
				}
				for f := range wsFileName {
					ln.Syn[f] = []tdiag{}
					if b := run.bufs[k][f]; b != "closed" {
						ln.Syn[f] = syn[f+"|"+b]
					}
				}
				ln.QC, ln.QF = map[string][]string{"f1": {}, "f2": {}, "f3": {}}, map[string][]string{"f1": {}, "f2": {}, "f3": {}}
				if k == len(run.tc.Hist) && run.qans != nil && freshQ[qkey(run.disks[k], run.bufs[k])] != nil {
					ln.Q, ln.QC, ln.QF = true, run.qans, freshQ[qkey(run.disks[k], run.bufs[k])]
				}
				if k == 0 {
					ln.Ev = "Reset"
					ln.Disk = run.disks[0]
				} else {
					e := run.tc.Hist[k-1]
					ln.Ev, ln.F, ln.V, ln.W = e.Ev, e.F, e.V, e.W
				}
				b, _ := json.Marshal(ln)
				buf.Write(b)
				buf.WriteByte('\n')
				nlines++
			}
		}
		st, err := c.TLC(tlc.Run{Module: "LspWorkspaceTrace", Workers: 1, Timeout: 20 * time.Minute,
			Files: map[string][]byte{"trace.ndjson": buf.Bytes()},
			Cfg:   "CONSTANTS\n  Files = {\"f1\",\"f2\",\"f3\"}\n  Variants = {\"clean\",\"syn\",\"warn\",\"defg\",\"useg\",\"req2\",\"req3\",\"dof2\"}\n  MaxHist = 0\n  InitMode = \"some\"\nINIT TraceInit\nNEXT TraceNext\nINVARIANTS Report\nCHECK_DEADLOCK FALSE\n"},
			func(jr json.RawMessage) {
				var o struct {
					Run   int      `json:"run"`
					Step  int      `json:"step"`
					Fresh []string `json:"fresh"`
					Dirty []string `json:"dirty"`
					Query []string `json:"query"`
				}
				if json.Unmarshal(jr, &o) != nil {
					return
				}
				j := byID[o.Run]
				if j == nil {
					return
				}
				run := j.Data.(*wsRun)
				if run.dead {
					return
				}
				run.dead = true // report the first broken step of a history only
				var sb strings.Builder
				for _, f := range append(o.Fresh, o.Dirty...) {
					fr := fresh[diskKey(run.disks[o.Step])][f]
					fmt.Fprintf(&sb, " %s: client=%v fresh=%v syn(buf)=%v;", f, run.views[o.Step][f], fr, syn[f+"|"+run.bufs[o.Step][f]])
				}
				for _, f := range o.Query {
					fq := freshQ[qkey(run.disks[o.Step], run.bufs[o.Step])][f]
					var diff []string
					for i, a := range run.qans[f] {
						if i >= len(fq) || fq[i] != a {
							diff = append(diff, strings.SplitN(a, "=", 2)[0])
						}
					}
					fmt.Fprintf(&sb, " %s: answers that differ from a fresh server's: %v;", f, diff)
				}
				evs, _ := json.Marshal(run.tc.Hist[:o.Step])
				desc := fmt.Sprintf("after event %d of the history (disk0=%v events=%s) obligation(s) Fresh%v Dirty%v Queries%v of C08 are broken:%s", o.Step, run.tc.Disk0, evs, o.Fresh, o.Dirty, o.Query, sb.String())
				if surveyMode {
					last := "start"
					if o.Step > 0 {
						last = run.tc.Hist[o.Step-1].Ev
					}
					sv.add(fmt.Sprintf("fresh=%d dirty=%d query=%d after %s", len(o.Fresh), len(o.Dirty), len(o.Query), last), desc)
					return
				}
				c.Rep.Violation(j.Raw, desc)
			})
		if err != nil || st.ExitCode != 0 || st.Depth != nlines+1 {
			c.Rep.Fatal(fmt.Sprintf("trace validation did not consume the trace (depth %d, lines %d, exit %d): %v\n%s", st.Depth, nlines, st.ExitCode, err, lastLines(st.Out, 12)))
			return false
		}
		c.Rep.Extra["trace_lines_validated"] = nlinesTotal + nlines
		nlinesTotal += nlines
		return true
	}
	var batch []*Job
	for _, j := range runs {
		if j.Data.(*wsRun).dead {
			continue
		}
		batch = append(batch, j)
		if len(batch) >= 3000 {
			if !validate(batch) {
				return
			}
			batch = nil
		}
	}
	if len(batch) > 0 {
		validate(batch)
	}
	// histories in project mode: Project.tla workspaces (entry file, what it requires, one scattered file), one file
	// edited and saved twice; compared with fresh servers directly
	if c.Replay == "" {
		scSeed = c.Seed
		n := 4
		if c.Thorough() {
			n = 5
		}
		projHistoryRuns(c, p, n, nil)
	}
	c.poolStats(p)
	if surveyMode {
		sv.dump()
	}
}

var nlinesTotal int
