package main

import (
	"encoding/base64"
	"encoding/json"
	"fmt"
	"strings"
	"time"

	"verifharness/internal/proto"
	"verifharness/internal/tlc"
)

func init() { registry["C13"] = checkC13 }

// comment texts in different scripts (ASCII, 2-byte Latin, 2-byte Cyrillic, 3-byte CJK, astral, mixed)
var cmText = map[int]string{1: "alpha one", 2: "héllo wörld", 3: "Привет мир", 4: "中文注释", 5: "smile 😀 end", 6: "mix é Я 中 😀 z"}

type cmLine struct {
	K      string `json:"k"`
	T      int    `json:"t"`
	Kind   string `json:"kind"`
	ID     int    `json:"id"`
	Tail   int    `json:"tail"`
	Doc    []int  `json:"doc"`
	Unspec bool   `json:"unspec"`
}

type cmCase struct {
	Lines []cmLine `json:"lines"`
}

type cmDecl struct {
	name    string
	line    cmLine
	hoverS  int
	col     int
	col2    int // column of the use in the second file (globals only), -1 if none
	hoverS2 int
	where   string
}

type cmData struct {
	tc    *cmCase
	text  string
	decls []cmDecl
	extra []cmExtra // members of the table literal that mod.lua returns, hovered from u.lua
	mod   string
}

// cmExtra: one member of the returned table literal: where it is hovered and the comment attached to it.
type cmExtra struct {
	name string
	step int
	doc  []string
}

var cmSeed int64 = 1

func cmBuild(id int, raw json.RawMessage) *Job {
	var tc cmCase
	if json.Unmarshal(raw, &tc) != nil {
		return nil
	}
	var sb strings.Builder
	sb.WriteString("local tb = {}\nlocal seed = 7\n\n")
	d := &cmData{tc: &tc}
	// the model's text ids are only identities; which script a text is written in rotates with the file
	rot := int(hash64(string(raw), cmSeed) % 6)
	for i := range tc.Lines {
		l := &tc.Lines[i]
		if l.T != 0 {
			l.T = (l.T-1+rot)%6 + 1
		}
		if l.Tail != 0 {
			l.Tail = (l.Tail-1+rot+2)%6 + 1
		}
		for k := range l.Doc {
			if l.Tail != 0 {
				l.Doc[k] = l.Tail
			} else {
				l.Doc[k] = (l.Doc[k]-1+rot)%6 + 1
			}
		}
	}
	for _, l := range tc.Lines {
		switch l.K {
		case "comment":
			sb.WriteString("-- " + cmText[l.T] + "\n")
		case "long":
			sb.WriteString("--[[ " + cmText[l.T] + " ]]\n")
		case "blank":
			sb.WriteString("\n")
		case "anno":
			sb.WriteString("---@type number\n")
		case "code":
			sb.WriteString("print(0)\n")
		case "decl":
			var stmt, name string
			switch l.Kind {
			case "local":
				name = fmt.Sprintf("v%d", l.ID)
				stmt = fmt.Sprintf("local %s = %d", name, l.ID)
			case "global":
				name = fmt.Sprintf("g%d", l.ID)
				stmt = fmt.Sprintf("%s = \"s%d\"", name, l.ID)
			case "gfunc":
				name = fmt.Sprintf("f%d", l.ID)
				stmt = fmt.Sprintf("function %s(pa, pb) end", name)
			case "gfromlocal":
				// a global whose value is read from a local: still a global
				name = fmt.Sprintf("g%d", l.ID)
				stmt = fmt.Sprintf("%s = seed", name)
			case "gfuncv":
				name = fmt.Sprintf("f%d", l.ID)
				stmt = fmt.Sprintf("function %s(...) end", name)
			case "lfuncv":
				name = fmt.Sprintf("h%d", l.ID)
				stmt = fmt.Sprintf("local function %s(pa, ...) end", name)
			case "member":
				name = fmt.Sprintf("tb.m%d", l.ID)
				stmt = fmt.Sprintf("%s = %d", name, l.ID)
			}
			if l.Tail != 0 {
				stmt += " -- " + cmText[l.Tail]
			}
			sb.WriteString(stmt + "\n")
			d.decls = append(d.decls, cmDecl{name: name, line: l})
		}
	}
	// uses on the last line
	last := "print("
	for i := range d.decls {
		if i > 0 {
			last += ", "
		}
		col := len(last)
		if strings.HasPrefix(d.decls[i].name, "tb.") {
			col += 3 // hover the member name
		}
		d.decls[i].col = col
		last += d.decls[i].name
	}
	last += ")\n"
	nlines := strings.Count(sb.String(), "\n")
	sb.WriteString(last)
	d.text = sb.String()

	// the globals are also used from a second file: the same label and documentation are due there
	other := "local z = 0 -- " + cmText[(rot+4)%6+1] + "\nprint(z"
	for i := range d.decls {
		d.decls[i].col2 = -1
		if k := d.decls[i].line.Kind; k == "global" || k == "gfunc" || k == "gfuncv" || k == "gfromlocal" {
			other += ", "
			d.decls[i].col2 = len(other) - len("local z = 0 -- "+cmText[(rot+4)%6+1]+"\n")
			other += d.decls[i].name
		}
	}
	other += ")\n"
	if (rot/2)%2 == 1 {
		// every second file is written with CRLF line ends (positions are per line; the text must come back without CR)
		d.text = strings.ReplaceAll(d.text, "\n", "\r\n")
		other = strings.ReplaceAll(other, "\n", "\r\n")
	}
	// a module that returns a table literal: its members carry comments too (head block, trailing comment, none; the
	// comment after the closing brace belongs to no member)
	ta, tb, tcx := (rot+1)%6+1, (rot+3)%6+1, (rot+5)%6+1
	d.mod = "return {\n  -- " + cmText[ta] + "\n  alpha = 1,\n  beta = 2, -- " + cmText[tb] + "\n\n  gamma = 3,\n} -- " + cmText[tcx] + "\n"
	useLine := strings.Count(other, "\n") + 1
	other += "local md = require(\"mod\")\nprint(md.alpha, md.beta, md.gamma)\n"
	if strings.Contains(d.text, "\r\n") {
		other = strings.ReplaceAll(strings.ReplaceAll(other, "\r\n", "\n"), "\n", "\r\n")
	}
	pc := &proto.Case{ID: id, Files: map[string]string{"f.lua": d.text, "u.lua": other, "mod.lua": d.mod}, Init: json.RawMessage(allOnLocal)}
	// a seeded third of the files arrive as an unsaved edit: the file on disk (and first opened) is an older text, a
	// didChange replaces the whole document, nothing is saved; hover is then about the text in the editor (and is
	// asked in that document only: what other files see of an unsaved document's globals is not settled)
	hm := hash64(string(raw), cmSeed+3) % 4
	unsaved := hm == 0
	// another quarter is edited (two comment lines put in front, so that every line moves) and closed without saving:
	// the edit is gone with the editor's copy, and what other files show about the file's globals is the saved text again
	closedAfterEdit := hm == 1
	if closedAfterEdit {
		pc.Steps = append(pc.Steps, openStep("f.lua", d.text), openStep("u.lua", other),
			changeStep("f.lua", 2, 0, 0, 0, 0, "-- typed and thrown away\n-- second line\n"),
			proto.Step{M: "textDocument/didClose", N: true, P: json.RawMessage(`{"textDocument":{"uri":"file://$ROOT/f.lua"}}`)})
	} else if unsaved {
		stale := "-- an older header\nlocal zz = 1 -- an older remark\n"
		pc.Files["f.lua"] = stale
		pc.Steps = append(pc.Steps, openStep("f.lua", stale), openStep("u.lua", other), changeStep("f.lua", 2, 0, 0, 2, 0, d.text))
	} else {
		pc.Steps = append(pc.Steps, openStep("f.lua", d.text), openStep("u.lua", other))
	}
	for k, e := range []cmExtra{{name: "alpha", doc: []string{cmText[ta]}}, {name: "beta", doc: []string{cmText[tb]}}, {name: "gamma"}} {
		col := []int{9, 19, 28}[k]
		pc.Steps = append(pc.Steps, proto.Step{M: "textDocument/hover", P: posParams("u.lua", useLine, col)})
		e.step = len(pc.Steps) - 1
		d.extra = append(d.extra, e)
	}
	for i := range d.decls {
		pc.Steps = append(pc.Steps, proto.Step{M: "textDocument/hover", P: posParams("f.lua", nlines, d.decls[i].col)})
		d.decls[i].hoverS = len(pc.Steps) - 1
		if closedAfterEdit {
			d.decls[i].hoverS = -1 // (the document is closed: only the other file asks)
		}
		d.decls[i].hoverS2 = -1
		if d.decls[i].col2 >= 0 && !unsaved {
			pc.Steps = append(pc.Steps, proto.Step{M: "textDocument/hover", P: posParams("u.lua", 1, d.decls[i].col2)})
			d.decls[i].hoverS2 = len(pc.Steps) - 1
		}
	}
	return &Job{PC: pc, Data: d}
}

// hoverParts splits the hover markdown into label (first code block) and documentation lines.
func hoverParts(reply json.RawMessage) (label string, doc []string, ok bool) {
	var h struct {
		Contents struct {
			Value string `json:"value"`
		} `json:"contents"`
	}
	if len(reply) == 0 || string(reply) == "null" || json.Unmarshal(reply, &h) != nil {
		return "", nil, false
	}
	v := h.Contents.Value
	if !strings.HasPrefix(v, "```lua\n") {
		return "", nil, false
	}
	end := strings.Index(v, "\n```")
	if end < 0 {
		return "", nil, false
	}
	label = v[len("```lua\n"):end]
	rest := v[end+len("\n```"):]
	rest = strings.TrimPrefix(rest, "\n---\n")
	if i := strings.Index(rest, "\n\r"); i >= 0 {
		rest = rest[:i] // the trailing part names the file
	}
	// head blocks are joined with markdown hard breaks ("  \n") and preceded by one such break
	rest = strings.TrimPrefix(rest, "  \n")
	rest = strings.TrimSuffix(rest, "\n")
	if rest == "" {
		return label, nil, true
	}
	return label, strings.Split(rest, "  \n"), true
}

func cmJudge(c *Ctx, j *Job, res *proto.Result) {
	d := j.Data.(*cmData)
	c.Rep.Eval(string(j.Raw))
	if res.Crash != "" || res.Hang {
		c.Rep.Violation(j.Raw, fmt.Sprintf("server died or hung (crash=%q hang=%v) on %q", res.Crash, res.Hang, d.text))
		return
	}
	for _, e := range d.extra {
		label, doc, ok := hoverParts(res.Steps[e.step].Reply)
		var p string
		if !ok {
			p = "no hover for a defined member: " + string(res.Steps[e.step].Reply)
		} else if !strings.Contains(label, e.name) {
			p = fmt.Sprintf("label %q does not contain the identifier %s", label, e.name)
		} else if strings.Join(doc, "\x00") != strings.Join(e.doc, "\x00") {
			p = fmt.Sprintf("documentation shown is %q, the comment attached to the declaration is %q", doc, e.doc)
		}
		if p == "" {
			continue
		}
		desc := fmt.Sprintf("hover on md.%s in u.lua (md = require(\"mod\")): %s — mod.lua %q", e.name, p, d.mod)
		if surveyMode {
			sv.add("retfield "+e.name+" "+firstWords(p, 3), desc)
			continue
		}
		c.Rep.Violation(j.Raw, desc)
		return
	}
	var asked []cmDecl
	for _, dc := range d.decls {
		dc.where = "f.lua"
		if dc.hoverS >= 0 {
			asked = append(asked, dc)
		}
		if dc.hoverS2 >= 0 {
			dc.hoverS, dc.where = dc.hoverS2, "u.lua (another file)"
			asked = append(asked, dc)
		}
	}
	for _, dc := range asked {
		label, doc, ok := hoverParts(res.Steps[dc.hoverS].Reply)
		var prob []string
		if !ok {
			prob = append(prob, "no hover for a defined name: "+string(res.Steps[dc.hoverS].Reply))
		} else {
			short := strings.TrimPrefix(dc.name, "tb.")
			if !strings.Contains(label, short) {
				prob = append(prob, fmt.Sprintf("label %q does not contain the identifier %s", label, short))
			}
			switch dc.line.Kind {
			case "local":
				if dc.line.Unspec {
					break
				}
				if !strings.HasPrefix(label, "local ") || !strings.Contains(label, fmt.Sprintf("= %d", dc.line.ID)) {
					prob = append(prob, fmt.Sprintf("label %q does not present a local with value %d", label, dc.line.ID))
				}
			case "global":
				if dc.line.Unspec {
					break
				}
				if strings.HasPrefix(label, "local ") || !strings.Contains(label, fmt.Sprintf(`"s%d"`, dc.line.ID)) {
					prob = append(prob, fmt.Sprintf("label %q does not present a global with value \"s%d\"", label, dc.line.ID))
				}
			case "gfunc":
				if dc.line.Unspec {
					break
				}
				a, b := strings.Index(label, "pa"), strings.Index(label, "pb")
				if !strings.Contains(label, "function") || a < 0 || b < a {
					prob = append(prob, fmt.Sprintf("label %q does not show the parameter list (pa, pb) as written", label))
				}
			case "gfromlocal":
				if !dc.line.Unspec && strings.HasPrefix(label, "local ") {
					prob = append(prob, fmt.Sprintf("label %q presents the global as a local", label))
				}
			case "gfuncv":
				if !dc.line.Unspec && (!strings.Contains(label, "function") || !strings.Contains(label, "...")) {
					prob = append(prob, fmt.Sprintf("label %q does not show the parameter list (...) as written", label))
				}
			case "lfuncv":
				a, b := strings.Index(label, "pa"), strings.Index(label, "...")
				if !dc.line.Unspec && (!strings.Contains(label, "function") || a < 0 || b < a) {
					prob = append(prob, fmt.Sprintf("label %q does not show the parameter list (pa, ...) as written", label))
				}
			case "member":
				if dc.line.Unspec {
					break
				}
				if !strings.Contains(label, fmt.Sprintf("= %d", dc.line.ID)) {
					prob = append(prob, fmt.Sprintf("label %q does not show the member's value %d", label, dc.line.ID))
				}
			}
			if !dc.line.Unspec {
				var want []string
				for _, t := range dc.line.Doc {
					want = append(want, cmText[t])
				}
				if strings.Join(doc, "\x00") != strings.Join(want, "\x00") {
					prob = append(prob, fmt.Sprintf("documentation shown is %q, the comment attached to the declaration is %q", doc, want))
				}
			}
		}
		if len(prob) == 0 {
			continue
		}
		desc := fmt.Sprintf("hover on %s in %s: %s — source %q", dc.name, dc.where, strings.Join(prob, "; "), d.text)
		if surveyMode {
			for _, p := range prob {
				w := strings.Fields(p)
				sv.add(dc.line.Kind+" "+strings.Join(w[:3], " "), desc)
			}
			continue
		}
		c.Rep.Violation(j.Raw, desc)
		return
	}
}

func checkC13(c *Ctx) {
	c.Rep.Rule = "(A) Comments.tla emits files line by line (short comments in six scripts, blank lines, long comments, annotation lines, code, declarations of four kinds with or without a trailing comment) and records for every declaration the comment the documented rule attaches; TLC enumerates all files up to MaxLines lines; hover is requested on a use of every declared name of a fresh real server and label facts and documentation text compared byte for byte. (B) Utf8.tla enumerates all byte sequences up to MaxBytes over 15 representative byte values with their well-formedness (Unicode table 3-7); every well-formed one must pass unchanged through the server's text normalisation; distinct = distinct files / byte sequences"
	c.Rep.Assumptions = []string{
		"hover layout: first code block = label; documentation = text after the '---' rule up to the file-name trailer, head-block lines joined by markdown hard breaks",
		"a long comment directly above a declaration is UNSPECIFIED; label layout beyond the listed facts is presentation",
	}
	ml := 4
	if c.Thorough() {
		ml = 5
	}
	cmSeed = c.Seed
	p := c.NewPool(0)
	cfg := fmt.Sprintf("CONSTANTS\n  MaxLines = %d\n  Texts = {1,2}\n  DeclKinds = {\"local\",\"global\",\"gfromlocal\",\"gfunc\",\"gfuncv\",\"lfuncv\",\"member\"}\nINIT Init\nNEXT Next\nINVARIANTS AccShort DocRule Emit\nCHECK_DEADLOCK FALSE\n", ml)
	if c.Replay != "" {
		raw, err := loadReplayCase(c.Replay)
		if err != nil {
			c.Rep.Fatal(err.Error())
			return
		}
		jb := cmBuild(1, raw)
		jb.Raw = raw
		p1 := c.NewPool(1)
		p1.RunSlice([][]*proto.Case{{jb.PC}}, func(_ *proto.Case, r *proto.Result) { cmJudge(c, jb, r) })
		return
	}
	if !c.streamRun("comment_files", tlc.Run{Module: "Comments", Workers: 8, Timeout: 30 * time.Minute, Cfg: cfg}, p, 16, cmBuild, func(j *Job, r *proto.Result) { cmJudge(c, j, r) }) {
		return
	}
	// ---- (B) UTF-8 well-formedness ----
	mb := 4
	bytesSet := "{65, 128, 143, 144, 159, 160, 191, 192, 194, 224, 228, 237, 240, 244, 255}"
	type u8 struct {
		b  []byte
		wf bool
	}
	var seqs []u8
	st, err := c.TLC(tlc.Run{Module: "Utf8", Workers: 4, Timeout: 20 * time.Minute,
		Cfg: fmt.Sprintf("CONSTANTS\n  MaxBytes = %d\n  Bytes = %s\nINIT Init\nNEXT Next\nINVARIANTS AsciiOK Emit\nCHECK_DEADLOCK FALSE\n", mb, bytesSet)},
		func(j json.RawMessage) {
			var o struct {
				Bytes []int `json:"bytes"`
				Wf    bool  `json:"wf"`
			}
			if json.Unmarshal(j, &o) != nil {
				return
			}
			b := make([]byte, len(o.Bytes))
			for i, x := range o.Bytes {
				b[i] = byte(x)
			}
			seqs = append(seqs, u8{b, o.Wf})
		})
	if err != nil || st.ExitCode != 0 {
		c.Rep.Fatal(fmt.Sprintf("Utf8.tla run failed (exit %d): %v\n%s", st.ExitCode, err, lastLines(st.Out, 10)))
		return
	}
	const batch = 4000
	var groups [][]*proto.Case
	for i := 0; i < len(seqs); i += batch {
		k := i + batch
		if k > len(seqs) {
			k = len(seqs)
		}
		pc := &proto.Case{Op: "conv", ID: i/batch + 1}
		for _, s := range seqs[i:k] {
			pc.TextsB64 = append(pc.TextsB64, base64.StdEncoding.EncodeToString(s.b))
		}
		groups = append(groups, []*proto.Case{pc})
	}
	nwf := 0
	p.RunSlice(groups, func(pc *proto.Case, res *proto.Result) {
		if res.Crash != "" || res.Hang {
			c.Rep.Violation(json.RawMessage(`{"fam":"utf8-batch"}`), "the text normalisation crashed or hung on a byte sequence: "+res.Crash)
			return
		}
		var outs []string
		json.Unmarshal(res.Parse, &outs)
		base := (pc.ID - 1) * batch
		for k, o := range outs {
			s := seqs[base+k]
			c.Rep.Eval(fmt.Sprintf("utf8:%x", s.b))
			if !s.wf {
				continue
			}
			nwf++
			ob, _ := base64.StdEncoding.DecodeString(o)
			if string(ob) != string(s.b) {
				raw, _ := json.Marshal(map[string]interface{}{"fam": "utf8", "bytes": s.b})
				desc := fmt.Sprintf("well-formed UTF-8 %x (%q) is altered by the server's text normalisation to %x (%q)", s.b, string(s.b), ob, string(ob))
				if surveyMode {
					sv.add("utf8 altered", desc)
					continue
				}
				c.Rep.Violation(raw, desc)
			}
		}
	})
	c.Rep.Extra["utf8_sequences"] = len(seqs)
	c.Rep.Extra["utf8_wellformed_checked"] = nwf
	c.Rep.Exhaustive = true
	c.poolStats(p)
	if surveyMode {
		sv.dump()
	}
}
