package main

import (
	"encoding/json"
	"fmt"
	"os"
	"path/filepath"
	"sort"
	"strings"
	"time"

	"verifharness/internal/pool"
	"verifharness/internal/proto"
	"verifharness/internal/tlc"
)

func init() { registry["C09"] = checkC09 }

type mgDef struct {
	Fl int `json:"fl"`
	Sl int `json:"sl"`
	Ln int `json:"ln"`
}

// mgFileText renders one file's definition of the global gshared at the given nesting and line.
func mgFileText(id int, d mgDef) string {
	if d.Ln == 0 {
		return fmt.Sprintf("local nothing%d = %d\nprint(nothing%d)\n", id, id, id)
	}
	var sb strings.Builder
	for l := 1; l < d.Ln; l++ {
		sb.WriteString("-- pad\n")
	}
	stmt := fmt.Sprintf("gshared = %d", id)
	if d.Sl == 1 {
		stmt = "do " + stmt + " end"
	}
	if d.Fl == 1 {
		stmt = fmt.Sprintf("local function h%d() %s end", id, stmt)
	}
	sb.WriteString(stmt + "\n")
	if d.Fl == 1 {
		fmt.Fprintf(&sb, "print(h%d)\n", id)
	}
	return sb.String()
}

// normalised observation of one run of a workspace: diagnostics and a fixed list of query answers, order-insensitive
func c09Observe(root string, res *proto.Result, nq int) string {
	view := map[string][]diag{}
	foldDiags(root, view, res.InitNtfs)
	for i := range res.Steps {
		foldDiags(root, view, res.Steps[i].Ntfs)
	}
	var parts []string
	for _, k := range diagKeys(view) {
		parts = append(parts, "D "+k)
	}
	for i := len(res.Steps) - nq; i < len(res.Steps); i++ {
		parts = append(parts, fmt.Sprintf("Q%d %s", i, digest(root, &res.Steps[i])))
	}
	sort.Strings(parts)
	return strings.Join(parts, "\n")
}

func checkC09(c *Ctx) {
	c.Rep.Rule = "(A) Merge.tla enumerates workspaces in which two or three files define the same global at different function/block nesting and lines, and every order in which the files can be merged; per workspace the set of possible winners is TLC's prediction (singleton = schedule-independent). Each workspace is analysed repeatedly by fresh real servers under GOMAXPROCS 1, 2 and 16; the observable winner (go-to-definition from a fourth file) and all diagnostics must be identical across runs. (B) richer workspaces (the configuration workspace, the repository's testdata projects, simulated Scope.tla programs) are analysed repeatedly under the same GOMAXPROCS settings and their normalised diagnostics and query answers compared; distinct = distinct workspaces"
	c.Rep.Assumptions = []string{
		"map iteration order cannot be driven from outside (not add-only), so the schedule is sampled by repetition (Go randomises the start of every map range); the enumeration of orders lives in the model",
		"answers are compared as order-insensitive digests",
	}
	gmp := []string{"1", "2", "16"}
	pools := []*pool.Pool{}
	for i, g := range gmp {
		p := c.NewPool(6)
		p.BaseDir += fmt.Sprintf("g%d", i)
		p.Env = []string{"GOMAXPROCS=" + g}
		pools = append(pools, p)
	}
	reps := 6 // per GOMAXPROCS setting -> 18 runs per workspace
	if c.Thorough() {
		reps = 14
	}
	// ---------------- (A) model-guided tie workspaces ----------------
	type wsInfo struct {
		ws      map[string]mgDef
		winners map[string]bool
		obs     map[string]int // observed winner (file of the definition answer) -> count
		outs    map[string]int // whole normalised observation -> count
	}
	wss := map[string]*wsInfo{}
	var order []string
	maxLine := 2
	if c.Thorough() {
		maxLine = 3
	}
	st, err := c.TLC(tlc.Run{Module: "Merge", Workers: 8, Timeout: 30 * time.Minute,
		Cfg: fmt.Sprintf("CONSTANTS\n  Files = {\"f1\",\"f2\",\"f3\"}\n  MaxLine = %d\nINIT Init\nNEXT Next\nINVARIANTS NonEmpty NoDup Emit\nCHECK_DEADLOCK FALSE\n", maxLine)},
		func(j json.RawMessage) {
			var o struct {
				Ws     map[string]mgDef `json:"ws"`
				Winner string           `json:"winner"`
			}
			if json.Unmarshal(j, &o) != nil {
				return
			}
			k, _ := json.Marshal(o.Ws)
			w := wss[string(k)]
			if w == nil {
				w = &wsInfo{ws: o.Ws, winners: map[string]bool{}, obs: map[string]int{}, outs: map[string]int{}}
				wss[string(k)] = w
				order = append(order, string(k))
			}
			w.winners[o.Winner] = true
		})
	if err != nil || st.ExitCode != 0 {
		c.Rep.Fatal(fmt.Sprintf("Merge.tla run failed (exit %d): %v\n%s", st.ExitCode, err, lastLines(st.Out, 12)))
		return
	}
	sort.Strings(order)
	// quick: a seeded sample of the workspaces, all of them in the thorough tier
	sel := order
	if !c.Thorough() && len(sel) > 260 {
		var s2 []string
		for i, k := range order {
			if (int64(i)*2654435761+c.Seed*40503)%int64(len(order)) < 260 {
				s2 = append(s2, k)
			}
		}
		sel = s2
	}
	c.Rep.Extra["merge_workspaces_total"] = len(order)
	c.Rep.Extra["merge_workspaces_run"] = len(sel)
	idOf := map[int]string{}
	id := 0
	groups := make([][][]*proto.Case, len(pools))
	for _, k := range sel {
		w := wss[k]
		files := map[string]string{"user.lua": "print(gshared)\n"}
		for i, f := range []string{"f1", "f2", "f3"} {
			files[f+".lua"] = mgFileText(i+1, w.ws[f])
		}
		for pi := range pools {
			for r := 0; r < reps; r++ {
				id++
				idOf[id] = k
				pc := &proto.Case{ID: id, Files: files, Init: json.RawMessage(allOnLocal)}
				pc.Steps = append(pc.Steps, openStep("user.lua", files["user.lua"]),
					proto.Step{M: "textDocument/definition", P: posParams("user.lua", 0, 6)},
					proto.Step{M: "textDocument/hover", P: posParams("user.lua", 0, 6)})
				groups[pi] = append(groups[pi], []*proto.Case{pc})
			}
		}
	}
	done := make(chan bool, len(pools))
	type obsv struct {
		id     int
		winner string
		out    string
		crash  string
	}
	obsCh := make(chan obsv, 1024)
	for pi, p := range pools {
		go func(pi int, p *pool.Pool) {
			p.RunSlice(groups[pi], func(pc *proto.Case, res *proto.Result) {
				o := obsv{id: pc.ID}
				if res.Crash != "" || res.Hang {
					o.crash = fmt.Sprintf("crash=%q hang=%v", res.Crash, res.Hang)
				} else {
					locs, _ := projLocs(res.Root, res.Steps[1].Reply)
					o.winner = "none"
					if len(locs) == 1 {
						o.winner = strings.TrimSuffix(locs[0].File, ".lua")
					} else if len(locs) > 1 {
						o.winner = fmt.Sprint(locs)
					}
					o.out = c09Observe(res.Root, res, 2)
				}
				obsCh <- o
			})
			done <- true
		}(pi, p)
	}
	go func() {
		for range pools {
			<-done
		}
		close(obsCh)
	}()
	for o := range obsCh {
		w := wss[idOf[o.id]]
		c.Rep.Eval(idOf[o.id])
		if o.crash != "" {
			c.Rep.Violation(json.RawMessage(idOf[o.id]), "server died while analysing a workspace with duplicate global definitions: "+o.crash)
			continue
		}
		w.obs[o.winner]++
		w.outs[o.out]++
	}
	drift := 0
	for _, k := range sel {
		w := wss[k]
		var pred []string
		for x := range w.winners {
			pred = append(pred, x)
		}
		sort.Strings(pred)
		rawb, _ := json.Marshal(map[string]interface{}{"fam": "merge", "ws": json.RawMessage(k), "predicted_winners": pred})
		raw := json.RawMessage(rawb)
		if len(w.outs) > 1 {
			desc := fmt.Sprintf("repeated analyses of one workspace give different results: definition of gshared leads to %v over %d runs (Merge.tla's possible winners: %v); workspace %s", w.obs, reps*len(pools), pred, k)
			if len(w.winners) > 1 {
				c.Rep.Deviation("Dev_TieBrokenByMapOrder", desc, raw)
			} else {
				if surveyMode {
					sv.add("differs although model predicts stable", desc)
					continue
				}
				c.Rep.Violation(raw, desc)
			}
			continue
		}
		// stable in all runs: does it match the model's prediction? (model drift only, never a verdict)
		for ob := range w.obs {
			if !w.winners[ob] {
				drift++
				c.Rep.Inconclusive(fmt.Sprintf("MODEL-DRIFT Merge.tla predicts winners %v, the server always answers %s for %s", pred, ob, k))
			}
		}
		c.Rep.Sample(map[string]interface{}{"workspace": json.RawMessage(k), "predicted_winners": pred, "observed": w.obs}, 3)
	}
	c.Rep.Extra["model_drift_cases"] = drift
	// ---------------- (B) richer workspaces, repeated ----------------
	type bw struct {
		name  string
		files map[string]string
		steps []proto.Step
		nq    int
		dev   string // known finding that explains run-to-run variation of this workspace ("" = none allowed)
	}
	var bws []bw
	if files, err := cfgWorkspace(c.Root); err == nil {
		st := []proto.Step{openStep("main.lua", files["main.lua"])}
		q := []proto.Step{
			{M: "textDocument/definition", P: posParams("main.lua", 10, 6)},
			{M: "textDocument/references", P: refParams("main.lua", 7, 6)},
			{M: "textDocument/hover", P: posParams("main.lua", 12, 9)},
			{M: "textDocument/documentSymbol", P: json.RawMessage(`{"textDocument":{"uri":"file://$ROOT/main.lua"}}`)},
			{M: "textDocument/completion", P: json.RawMessage(`{"textDocument":{"uri":"file://$ROOT/main.lua"},"position":{"line":10,"character":7},"context":{"triggerKind":1}}`)},
		}
		bws = append(bws, bw{"cfgws", files, append(st, q...), len(q), ""})
	}
	// many files, fewer symbols than workspace/symbol's 200-entry cap: the per-file symbol workers run in parallel
	{
		files := map[string]string{}
		for f := 0; f < 24; f++ {
			var sb strings.Builder
			for i := 0; i < 6; i++ {
				fmt.Fprintf(&sb, "cfgkey_%d_%d = %d\n", f, i, i)
			}
			fmt.Fprintf(&sb, "function other_%d(a) return a end\n", f)
			files[fmt.Sprintf("mod%02d.lua", f)] = sb.String()
		}
		q := []proto.Step{
			{M: "workspace/symbol", P: json.RawMessage(`{"query":"cfgkey"}`)},
			{M: "workspace/symbol", P: json.RawMessage(`{"query":"cfgkey_3_"}`)},
			{M: "workspace/symbol", P: json.RawMessage(`{"query":"other_1"}`)},
			{M: "textDocument/references", P: refParams("mod03.lua", 2, 2)},
		}
		bws = append(bws, bw{"symbols24", files, append([]proto.Step{openStep("mod03.lua", files["mod03.lua"])}, q...), len(q), ""})
	}
	// a table and a class with more members than the hover preview shows: which ones are shown must not depend on map order
	{
		var sb strings.Builder
		sb.WriteString("local big = {\n")
		for i := 0; i < 45; i++ {
			fmt.Fprintf(&sb, "  field_%02d = %d,\n", (i*7)%45, i)
		}
		sb.WriteString("}\n---@class Wide\n")
		for i := 0; i < 40; i++ {
			fmt.Fprintf(&sb, "---@field w%02d number\n", (i*11)%40)
		}
		sb.WriteString("\n---@type Wide\nlocal wide = {}\nprint(big, wide)\nprint(big.field_03, wide.w07)\n")
		text := sb.String()
		nl := strings.Count(text, "\n")
		files := map[string]string{"big.lua": text}
		q := []proto.Step{
			{M: "textDocument/hover", P: posParams("big.lua", nl-2, 6)},
			{M: "textDocument/hover", P: posParams("big.lua", nl-2, 11)},
			{M: "textDocument/hover", P: posParams("big.lua", 0, 6)},
			{M: "textDocument/completion", P: json.RawMessage(fmt.Sprintf(`{"textDocument":{"uri":"file://$ROOT/big.lua"},"position":{"line":%d,"character":10},"context":{"triggerKind":1}}`, nl-1))},
			{M: "textDocument/documentSymbol", P: json.RawMessage(`{"textDocument":{"uri":"file://$ROOT/big.lua"}}`)},
		}
		bws = append(bws, bw{"wide_tables", files, append([]proto.Step{openStep("big.lua", text)}, q...), len(q), ""})
	}
	// mirrored directory trees with modules of the same base name: which file a require denotes must not depend on the
	// order in which the candidates are met
	{
		files := map[string]string{
			"client/ui/main.lua":     "local util = require(\"util\")\nlocal conf = require(\"conf\")\nprint(util.name, conf.name, util.only_client, conf.level)\n",
			"client/common/util.lua": "local M = { name = \"client-common\", only_client = 1 }\nreturn M\n",
			"server/ui/util.lua":     "local M = { name = \"server-ui\", only_server = 1 }\nreturn M\n",
			"server/common/conf.lua": "local C = { name = \"server-common\", level = 2 }\nreturn C\n",
			"client/net/conf.lua":    "local C = { name = \"client-net\", level = 1 }\nreturn C\n",
			"server/ui/main.lua":     "local util = require(\"util\")\nlocal conf = require(\"common.conf\")\nprint(util.name, conf.level)\n",
		}
		main := "client/ui/main.lua"
		q := []proto.Step{
			{M: "textDocument/definition", P: posParams(main, 0, 23)},
			{M: "textDocument/definition", P: posParams(main, 1, 23)},
			{M: "textDocument/definition", P: posParams(main, 2, 12)},
			{M: "textDocument/definition", P: posParams(main, 2, 23)},
			{M: "textDocument/hover", P: posParams(main, 2, 34)},
			{M: "textDocument/hover", P: posParams(main, 2, 52)},
			{M: "textDocument/definition", P: posParams("server/ui/main.lua", 1, 25)},
		}
		bws = append(bws, bw{"mirrored_trees", files, append([]proto.Step{openStep(main, files[main]), openStep("server/ui/main.lua", files["server/ui/main.lua"])}, q...), len(q), ""})
		// two candidates that no rule separates (same score): the known finding Dev_EqualScoreCandidates, here seen as
		// run-to-run variation
		files2 := map[string]string{
			"a/x/same.lua": "return { v = 1 }\n",
			"b/x/same.lua": "return { v = 2 }\n",
			"c/y/user.lua": "local s = require(\"x.same\")\nprint(s.v)\n",
		}
		q2 := []proto.Step{
			{M: "textDocument/definition", P: posParams("c/y/user.lua", 0, 20)},
			{M: "textDocument/definition", P: posParams("c/y/user.lua", 1, 8)},
		}
		bws = append(bws, bw{"equal_score_modules", files2, append([]proto.Step{openStep("c/y/user.lua", files2["c/y/user.lua"])}, q2...), len(q2), "Dev_EqualScoreCandidates"})
	}
	// two entry files whose projects share files and resolve one global name differently: the projects are analysed by
	// their own goroutines and kept in a map; answers about the shared files must not depend on which comes first
	{
		files := map[string]string{
			"luahelper.json": `{"ShowWarnFlag":1,"ProjectFiles":["main1.lua","main2.lua"]}`,
			"main1.lua":      "require(\"defs1\")\nrequire(\"user\")\n",
			"main2.lua":      "require(\"defs1\")\nrequire(\"defs2\")\nrequire(\"user\")\n",
			"defs1.lua":      "function helper(a) return a end\nshared_n = 1\n",
			"defs2.lua":      "function helper(a, b) return b end\nshared_n = 2\n",
			"user.lua":       "local v = helper(1)\nprint(v, shared_n)\n",
		}
		q := []proto.Step{
			{M: "textDocument/references", P: refParams("defs1.lua", 0, 11)},
			{M: "textDocument/references", P: refParams("defs2.lua", 0, 11)},
			{M: "textDocument/references", P: refParams("defs1.lua", 1, 2)},
			{M: "textDocument/definition", P: posParams("user.lua", 0, 12)},
			{M: "textDocument/definition", P: posParams("user.lua", 1, 10)},
			{M: "textDocument/hover", P: posParams("user.lua", 0, 12)},
			{M: "textDocument/rename", P: json.RawMessage(`{"textDocument":{"uri":"file://$ROOT/defs1.lua"},"position":{"line":0,"character":11},"newName":"zz"}`)},
		}
		st := []proto.Step{openStep("defs1.lua", files["defs1.lua"]), openStep("defs2.lua", files["defs2.lua"]), openStep("user.lua", files["user.lua"])}
		bws = append(bws, bw{"two_projects_shared", files, append(st, q...), len(q), ""})
	}
	// an annotation class declared in two files (each contributing fields) and used from a third: the union of the
	// declarations must not depend on the order in which the files are visited
	{
		files := map[string]string{
			"shape_a.lua": "---@class Shape\n---@field width number\n---@field depth number\n\n---@alias Size number\n",
			"shape_b.lua": "---@class Shape\n---@field height number\n\n---@class Box : Shape\n---@field lid boolean\n",
			"use.lua":     "---@type Shape\nlocal s = nil\nprint(s.width, s.height)\n---@type Box\nlocal b = nil\nprint(b.lid, b.depth, b.height)\n",
		}
		q := []proto.Step{
			{M: "textDocument/hover", P: posParams("use.lua", 2, 9)},
			{M: "textDocument/hover", P: posParams("use.lua", 2, 18)},
			{M: "textDocument/definition", P: posParams("use.lua", 2, 9)},
			{M: "textDocument/definition", P: posParams("use.lua", 2, 18)},
			{M: "textDocument/definition", P: posParams("use.lua", 5, 14)},
			{M: "textDocument/definition", P: posParams("use.lua", 5, 23)},
			{M: "textDocument/hover", P: posParams("use.lua", 1, 6)},
			changeStep("use.lua", 2, 6, 0, 6, 0, "local w = s.\n"),
			{M: "textDocument/completion", P: compParams("use.lua", 6, 12)},
			changeStep("use.lua", 3, 6, 0, 7, 0, "local w = b.\n"),
			{M: "textDocument/completion", P: compParams("use.lua", 6, 12)},
		}
		bws = append(bws, bw{"split_class", files, append([]proto.Step{openStep("use.lua", files["use.lua"])}, q...), len(q), ""})
	}
	// a watched-files batch in which one file really changed and another was only touched (same bytes as at its previous
	// event): the two files are re-read by parallel workers; what the batch changes must not depend on which finishes last
	{
		var sa, sb strings.Builder
		for i := 0; i < 1500; i++ {
			fmt.Fprintf(&sa, "local fa%d = %d\n", i, i)
			fmt.Fprintf(&sb, "local fb%d = %d\n", i, i)
		}
		files := map[string]string{"a.lua": sa.String() + "batch_old = 1\n", "b.lua": sb.String() + "batch_other = 2\n", "c.lua": "print(batch_new, batch_old, batch_other)\n"}
		batch := func(names ...string) proto.Step {
			var evs []string
			for _, n := range names {
				evs = append(evs, fmt.Sprintf(`{"uri":"file://$ROOT/%s","type":2}`, n))
			}
			return proto.Step{M: "workspace/didChangeWatchedFiles", N: true, P: json.RawMessage(`{"changes":[` + strings.Join(evs, ",") + `]}`)}
		}
		st := []proto.Step{openStep("c.lua", files["c.lua"]), batch("a.lua", "b.lua"),
			{M: "fs.write", Path: "a.lua", Text: sa.String() + "batch_new = 1\n"}, batch("a.lua", "b.lua")}
		q := []proto.Step{
			{M: "textDocument/definition", P: posParams("c.lua", 0, 8)},
			{M: "textDocument/definition", P: posParams("c.lua", 0, 19)},
			{M: "textDocument/hover", P: posParams("c.lua", 0, 8)},
			{M: "textDocument/references", P: refParams("c.lua", 0, 8)},
		}
		bws = append(bws, bw{"touch_batch", files, append(st, q...), len(q), ""})
	}
	// project mode, two files with the same text (and therefore textually identical warnings) reached from one entry file:
	// each keeps its own diagnostics, whatever order the per-file results are collected in
	{
		twin := "local n = 1\nprint(undefined_twin, n)\n"
		files := map[string]string{"luahelper.json": `{"ShowWarnFlag":1,"ProjectFiles":["main.lua"]}`,
			"main.lua": "require(\"one.util\")\nrequire(\"two.util\")\nrequire(\"three.util\")\n", "one/util.lua": twin, "two/util.lua": twin, "three/util.lua": twin}
		q := []proto.Step{{M: "textDocument/hover", P: posParams("main.lua", 0, 3)}}
		bws = append(bws, bw{"twin_files_project", files, append([]proto.Step{openStep("main.lua", files["main.lua"])}, q...), len(q), ""})
	}
	// the same workspaces with an entry file configured: the project pass (its own goroutines and tables) runs too
	for _, b := range append([]bw{}, bws...) {
		entry := ""
		switch b.name {
		case "mirrored_trees":
			entry = "client/ui/main.lua"
		case "wide_tables":
			entry = "big.lua"
		case "symbols24":
			entry = "mod03.lua"
		}
		if entry == "" {
			continue
		}
		files := map[string]string{"luahelper.json": fmt.Sprintf(`{"ShowWarnFlag":1,"ProjectFiles":[%q]}`, entry)}
		for k, v := range b.files {
			files[k] = v
		}
		bws = append(bws, bw{b.name + "_project", files, b.steps, b.nq, b.dev})
	}
	repoRoot := "/repo"
	if alt := os.Getenv("VERIF_REPO"); alt != "" {
		repoRoot = alt
	}
	tdRoot := filepath.Join(repoRoot, "luahelper-lsp", "testdata")
	if ents, err := os.ReadDir(tdRoot); err == nil {
		for _, e := range ents {
			if !e.IsDir() {
				continue
			}
			files := map[string]string{}
			filepath.Walk(filepath.Join(tdRoot, e.Name()), func(p string, info os.FileInfo, err error) error {
				if err == nil && !info.IsDir() && strings.HasSuffix(p, ".lua") {
					if b, e2 := os.ReadFile(p); e2 == nil {
						rel, _ := filepath.Rel(filepath.Join(tdRoot, e.Name()), p)
						files[rel] = string(b)
					}
				}
				return nil
			})
			if len(files) == 0 {
				continue
			}
			var names []string
			for n := range files {
				names = append(names, n)
			}
			sort.Strings(names)
			var st []proto.Step
			nq := 0
			for _, n := range names {
				if len(st) > 40 {
					break
				}
				st = append(st, openStep(n, files[n]))
			}
			for _, n := range names {
				if nq >= 12 {
					break
				}
				st = append(st, proto.Step{M: "textDocument/documentSymbol", P: json.RawMessage(fmt.Sprintf(`{"textDocument":{"uri":"file://$ROOT/%s"}}`, n))},
					proto.Step{M: "textDocument/hover", P: posParams(n, 0, 7)},
					proto.Step{M: "textDocument/definition", P: posParams(n, 1, 7)})
				nq += 3
			}
			bws = append(bws, bw{"testdata/" + e.Name(), files, st, nq, ""})
		}
	}
	groupsB := make([][][]*proto.Case, len(pools))
	idB := map[int]int{}
	id = 0
	for bi, b := range bws {
		for pi := range pools {
			for r := 0; r < reps*3; r++ { // these runs are cheap: three times the repetitions of part A
				id++
				idB[id] = bi
				groupsB[pi] = append(groupsB[pi], []*proto.Case{{ID: id, Files: b.files, Init: json.RawMessage(allOnLocal), Steps: b.steps}})
			}
		}
	}
	outsB := make([]map[string]int, len(bws))
	for i := range outsB {
		outsB[i] = map[string]int{}
	}
	type ob2 struct {
		bi  int
		out string
	}
	ch2 := make(chan ob2, 256)
	done2 := make(chan bool, len(pools))
	for pi, p := range pools {
		go func(pi int, p *pool.Pool) {
			p.RunSlice(groupsB[pi], func(pc *proto.Case, res *proto.Result) {
				bi := idB[pc.ID]
				if res.Crash != "" || res.Hang {
					ch2 <- ob2{bi, "CRASH " + res.Crash}
					return
				}
				ch2 <- ob2{bi, c09Observe(res.Root, res, bws[bi].nq)}
			})
			done2 <- true
		}(pi, p)
	}
	go func() {
		for range pools {
			<-done2
		}
		close(ch2)
	}()
	for o := range ch2 {
		outsB[o.bi][o.out]++
		c.Rep.Eval("B:" + bws[o.bi].name)
	}
	for bi, b := range bws {
		if len(outsB[bi]) <= 1 {
			continue
		}
		// describe the difference between two of the observed outputs
		var vs []string
		for o := range outsB[bi] {
			vs = append(vs, o)
		}
		sort.Strings(vs)
		da, db := diffSets(strings.Split(vs[0], "\n"), strings.Split(vs[1], "\n"))
		desc := fmt.Sprintf("workspace %s analysed %d times gives %d different results; e.g. only in one run: %v / only in another: %v", b.name, 3*reps*len(pools), len(outsB[bi]), trimList(da, 4), trimList(db, 4))
		raw, _ := json.Marshal(map[string]interface{}{"fam": "repeat", "workspace": b.name})
		if surveyMode {
			sv.add("repeat differs "+b.name, desc)
			continue
		}
		if b.dev != "" {
			c.Rep.Deviation(b.dev, desc, raw)
			continue
		}
		c.Rep.Violation(raw, desc)
	}
	c.Rep.Extra["repeated_workspaces"] = len(bws)
	c.Rep.Traces = int64(len(sel) + len(bws))
	for _, p := range pools {
		c.poolStats(p)
	}
	if surveyMode {
		sv.dump()
	}
}

func trimList(s []string, n int) []string {
	if len(s) > n {
		return s[:n]
	}
	return s
}
