package main

import (
	"bytes"
	"encoding/base64"
	"encoding/json"
	"fmt"
	"regexp"
	"sort"
	"strings"
	"time"
	"verifharness/internal/pool"

	"verifharness/internal/proto"
	"verifharness/internal/tlc"
)

func init() { registry["C02"] = checkC02 }

// ---- abstract characters (TextSync.tla) and their dumb rendering ----

type aChar struct {
	C string `json:"c"`
	T int    `json:"t"`
}

func renderChar(c aChar) string {
	switch c.C {
	case "LF":
		return "\n"
	case "CR":
		return "\r"
	case "a":
		if c.T >= 100 {
			return string(rune('A' + (c.T-100)%26))
		}
		return string(rune('a' + c.T%26))
	case "c2":
		return string(rune(0xC0 + c.T%64))
	case "c3":
		return string(rune(0x4E00 + c.T%512))
	case "c4":
		// astral characters of three planes: lead bytes F0 9F (emoji), F0 A0 (CJK extension B), F4 8F (plane 16)
		switch c.T % 3 {
		case 1:
			return string(rune(0x20000 + c.T%64))
		case 2:
			return string(rune(0x10FF00 + c.T%64))
		}
		return string(rune(0x1F600 + c.T%64))
	case "sp":
		return " "
	}
	return "?"
}

func renderDoc(d []aChar) string {
	var sb strings.Builder
	for _, c := range d {
		sb.WriteString(renderChar(c))
	}
	return sb.String()
}

type tsChange struct {
	S []int   `json:"s"`
	E []int   `json:"e"`
	T []aChar `json:"t"`
}

type tsOp struct {
	K   string             `json:"k"`
	U   string             `json:"u"`
	Chg []tsChange         `json:"chg"`
	T   []aChar            `json:"t"`
	Exp []aChar            `json:"exp"`
	Alt map[string][]aChar `json:"alt"`
}

type tsCase struct {
	Fam   string             `json:"fam"`
	First map[string][]aChar `json:"first"`
	Ops   []tsOp             `json:"ops"`
}

func jstr(s string) string { b, _ := json.Marshal(s); return string(b) }

// tsBuild turns a TextSync behaviour into a driver case; peekAt[i] = step index of the peek after op i.
func tsBuild(id int, tc *tsCase) (*proto.Case, []int, []int) {
	c := &proto.Case{ID: id, Keep: true}
	uris := []string{}
	for u := range tc.First {
		uris = append(uris, u)
	}
	sort.Strings(uris)
	name := func(u string) string { return "d_" + u + ".lua" }
	uri := func(u string) string { return "file://$ROOT/" + name(u) }
	open := map[string]bool{}
	firstPeek := []int{}
	for _, u := range uris {
		txt := renderDoc(tc.First[u])
		c.Steps = append(c.Steps, proto.Step{M: "fs.write", Path: name(u), Text: txt})
		c.Steps = append(c.Steps, proto.Step{M: "textDocument/didOpen", N: true,
			P: json.RawMessage(fmt.Sprintf(`{"textDocument":{"uri":%s,"languageId":"lua","version":1,"text":%s}}`, jstr(uri(u)), jstr(txt)))})
		c.Steps = append(c.Steps, proto.Step{M: "peek", Path: name(u)})
		firstPeek = append(firstPeek, len(c.Steps)-1)
		open[u] = true
	}
	peekAt := make([]int, len(tc.Ops))
	for i, op := range tc.Ops {
		peekAt[i] = -1
		switch op.K {
		case "change":
			var chs []string
			for _, ch := range op.Chg {
				chs = append(chs, fmt.Sprintf(`{"range":{"start":{"line":%d,"character":%d},"end":{"line":%d,"character":%d}},"text":%s}`,
					ch.S[0], ch.S[1], ch.E[0], ch.E[1], jstr(renderDoc(ch.T))))
			}
			c.Steps = append(c.Steps, proto.Step{M: "textDocument/didChange", N: true,
				P: json.RawMessage(fmt.Sprintf(`{"textDocument":{"uri":%s,"version":%d},"contentChanges":[%s]}`, jstr(uri(op.U)), i+2, strings.Join(chs, ",")))})
		case "mixed":
			chs := []string{fmt.Sprintf(`{"text":%s}`, jstr(renderDoc(op.T)))}
			for _, ch := range op.Chg {
				chs = append(chs, fmt.Sprintf(`{"range":{"start":{"line":%d,"character":%d},"end":{"line":%d,"character":%d}},"text":%s}`,
					ch.S[0], ch.S[1], ch.E[0], ch.E[1], jstr(renderDoc(ch.T))))
			}
			c.Steps = append(c.Steps, proto.Step{M: "textDocument/didChange", N: true,
				P: json.RawMessage(fmt.Sprintf(`{"textDocument":{"uri":%s,"version":%d},"contentChanges":[%s]}`, jstr(uri(op.U)), i+2, strings.Join(chs, ",")))})
		case "full":
			c.Steps = append(c.Steps, proto.Step{M: "textDocument/didChange", N: true,
				P: json.RawMessage(fmt.Sprintf(`{"textDocument":{"uri":%s,"version":%d},"contentChanges":[{"text":%s}]}`, jstr(uri(op.U)), i+2, jstr(renderDoc(op.T))))})
		case "save":
			c.Steps = append(c.Steps, proto.Step{M: "fs.write", Path: name(op.U), Text: renderDoc(op.T)})
			c.Steps = append(c.Steps, proto.Step{M: "textDocument/didSave", N: true,
				P: json.RawMessage(fmt.Sprintf(`{"textDocument":{"uri":%s},"text":%s}`, jstr(uri(op.U)), jstr(renderDoc(op.T))))})
		case "query":
			for _, m := range []string{"textDocument/hover", "textDocument/definition", "textDocument/documentHighlight"} {
				c.Steps = append(c.Steps, proto.Step{M: m, P: json.RawMessage(fmt.Sprintf(`{"textDocument":{"uri":%s},"position":{"line":0,"character":%d}}`, jstr(uri(op.U)), i%3))})
			}
		case "close":
			c.Steps = append(c.Steps, proto.Step{M: "textDocument/didClose", N: true,
				P: json.RawMessage(fmt.Sprintf(`{"textDocument":{"uri":%s}}`, jstr(uri(op.U))))})
			open[op.U] = false
			continue
		case "open":
			c.Steps = append(c.Steps, proto.Step{M: "textDocument/didOpen", N: true,
				P: json.RawMessage(fmt.Sprintf(`{"textDocument":{"uri":%s,"languageId":"lua","version":1,"text":%s}}`, jstr(uri(op.U)), jstr(renderDoc(op.T))))})
			open[op.U] = true
		}
		c.Steps = append(c.Steps, proto.Step{M: "peek", Path: name(op.U)})
		peekAt[i] = len(c.Steps) - 1
	}
	for _, u := range uris {
		if open[u] {
			c.Steps = append(c.Steps, proto.Step{M: "textDocument/didClose", N: true,
				P: json.RawMessage(fmt.Sprintf(`{"textDocument":{"uri":%s}}`, jstr(uri(u))))})
		}
		c.Steps = append(c.Steps, proto.Step{M: "fs.delete", Path: name(u)})
	}
	return c, peekAt, firstPeek
}

// ---- the analysed view ----
// The same histories, replayed at the level "which text does the analysis see": every abstract character (they carry
// unique tags) is written as one line  g<tag> = o:m(<tag>)  , every operation that changes the text is sent as a full-text
// didChange of the resulting document. After every operation on an open document the outline must list exactly the
// g<tag> of the document the client holds; then position requests are made on the method name of a colon call, and the
// server's copy must still be the client's text.

func viewDoc(d []aChar) string {
	var sb strings.Builder
	for _, c := range d {
		fmt.Fprintf(&sb, "---@class K%d\ng%d = o:m(%d)\n", c.T, c.T, c.T)
	}
	return sb.String()
}

type tsView struct {
	tc    *tsCase
	marks []tsViewMark
}

type tsViewMark struct {
	op                int // -1: initial open of First[u]
	u                 string
	exp               []aChar
	peek1, sym, peek2 int
}

func tsBuildView(id int, tc *tsCase) (*proto.Case, *tsView) {
	c := &proto.Case{ID: id, Keep: true}
	v := &tsView{tc: tc}
	var uris []string
	for u := range tc.First {
		uris = append(uris, u)
	}
	sort.Strings(uris)
	name := func(u string) string { return "v_" + u + ".lua" }
	uri := func(u string) string { return "file://$ROOT/" + name(u) }
	observe := func(op int, u string, exp []aChar) {
		m := tsViewMark{op: op, u: u, exp: exp}
		c.Steps = append(c.Steps, proto.Step{M: "peek", Path: name(u)})
		m.peek1 = len(c.Steps) - 1
		c.Steps = append(c.Steps, proto.Step{M: "textDocument/documentSymbol", P: json.RawMessage(fmt.Sprintf(`{"textDocument":{"uri":%s}}`, jstr(uri(u))))})
		m.sym = len(c.Steps) - 1
		if len(exp) > 0 {
			col := len(fmt.Sprintf("g%d = o:", exp[0].T))
			for _, q := range []string{"textDocument/hover", "textDocument/definition", "textDocument/documentHighlight", "textDocument/references"} {
				p := fmt.Sprintf(`{"textDocument":{"uri":%s},"position":{"line":1,"character":%d}`, jstr(uri(u)), col)
				if strings.HasSuffix(q, "references") {
					p += `,"context":{"includeDeclaration":true}`
				}
				c.Steps = append(c.Steps, proto.Step{M: q, P: json.RawMessage(p + "}")})
			}
		}
		c.Steps = append(c.Steps, proto.Step{M: "peek", Path: name(u)})
		m.peek2 = len(c.Steps) - 1
		v.marks = append(v.marks, m)
	}
	open := map[string]bool{}
	disk := map[string][]aChar{}
	for _, u := range uris {
		disk[u] = tc.First[u]
		txt := viewDoc(tc.First[u])
		// (the file is new on disk: the watcher says so, as it says at the end that the file is gone)
		c.Steps = append(c.Steps, proto.Step{M: "fs.write", Path: name(u), Text: txt}, watched(name(u), 1),
			proto.Step{M: "textDocument/didOpen", N: true, P: json.RawMessage(fmt.Sprintf(`{"textDocument":{"uri":%s,"languageId":"lua","version":1,"text":%s}}`, jstr(uri(u)), jstr(txt)))})
		open[u] = true
		observe(-1, u, tc.First[u])
	}
	for i, op := range tc.Ops {
		txt := viewDoc(op.Exp)
		switch op.K {
		case "change", "mixed", "full":
			c.Steps = append(c.Steps, proto.Step{M: "textDocument/didChange", N: true,
				P: json.RawMessage(fmt.Sprintf(`{"textDocument":{"uri":%s,"version":%d},"contentChanges":[{"text":%s}]}`, jstr(uri(op.U)), i+2, jstr(txt)))})
		case "save":
			c.Steps = append(c.Steps, proto.Step{M: "fs.write", Path: name(op.U), Text: txt},
				proto.Step{M: "textDocument/didSave", N: true, P: json.RawMessage(fmt.Sprintf(`{"textDocument":{"uri":%s},"text":%s}`, jstr(uri(op.U)), jstr(txt)))})
			disk[op.U] = op.Exp
		case "close":
			c.Steps = append(c.Steps, proto.Step{M: "textDocument/didClose", N: true, P: json.RawMessage(fmt.Sprintf(`{"textDocument":{"uri":%s}}`, jstr(uri(op.U))))})
			open[op.U] = false
			// (what the server answers about a closed document is C08's subject, not asked here)
			continue
		case "open":
			c.Steps = append(c.Steps, proto.Step{M: "textDocument/didOpen", N: true,
				P: json.RawMessage(fmt.Sprintf(`{"textDocument":{"uri":%s,"languageId":"lua","version":1,"text":%s}}`, jstr(uri(op.U)), jstr(txt)))})
			open[op.U] = true
		case "query":
		}
		observe(i, op.U, op.Exp)
	}
	for _, u := range uris {
		if open[u] {
			c.Steps = append(c.Steps, proto.Step{M: "textDocument/didClose", N: true, P: json.RawMessage(fmt.Sprintf(`{"textDocument":{"uri":%s}}`, jstr(uri(u))))})
		}
		c.Steps = append(c.Steps, proto.Step{M: "fs.delete", Path: name(u)}, watched(name(u), 3))
	}
	return c, v
}

var reViewSym = regexp.MustCompile(`"name":"([gK]\d+)"`)

func tsJudgeView(c *Ctx, raw json.RawMessage, v *tsView, r *proto.Result) {
	c.Rep.Eval("view:" + string(raw))
	if r.Crash != "" || r.Hang {
		c.Rep.Violation(raw, fmt.Sprintf("server died or hung during text synchronisation, analysed view (crash=%q hang=%v at step %d)", r.Crash, r.Hang, r.AtStep))
		return
	}
	for _, m := range v.marks {
		want := viewDoc(m.exp)
		where := fmt.Sprintf("op %d on %s", m.op, m.u)
		if m.op < 0 {
			where = "the initial didOpen of " + m.u
		}
		if m.peek1 < 0 {
			where += " (closed: the saved text counts)"
		} else if got, found := peekBytes(&r.Steps[m.peek1]); !found || string(got) != want {
			c.Rep.Violation(raw, fmt.Sprintf("analysed view, after %s: server holds %q (found=%v), client holds %q", where, got, found, want))
			return
		}
		names := map[string]bool{}
		for _, x := range reViewSym.FindAllStringSubmatch(string(r.Steps[m.sym].Reply), -1) {
			names[x[1]] = true
		}
		var miss, extra []string
		for _, ch := range m.exp {
			for _, n := range []string{fmt.Sprintf("g%d", ch.T), fmt.Sprintf("K%d", ch.T)} {
				if !names[n] {
					miss = append(miss, n)
				}
				delete(names, n)
			}
		}
		for n := range names {
			extra = append(extra, n)
		}
		sort.Strings(extra)
		if len(miss)+len(extra) > 0 {
			c.Rep.Violation(raw, fmt.Sprintf("analysed view, after %s: the outline lists the globals of another text than the client's %q: missing %v, not in the client's text %v (reply %s)", where, want, miss, extra, clip(string(r.Steps[m.sym].Reply)+string(r.Steps[m.sym].Err), 300)))
			return
		}
		if m.peek2 < 0 {
			continue
		}
		if got, found := peekBytes(&r.Steps[m.peek2]); !found || string(got) != want {
			c.Rep.Violation(raw, fmt.Sprintf("analysed view, after %s and four position requests on the method name of the first line: server holds %q (found=%v), client holds %q", where, got, found, want))
			return
		}
	}
}

func peekBytes(sr *proto.StepResult) ([]byte, bool) {
	var p struct {
		Found bool   `json:"found"`
		B64   string `json:"b64"`
	}
	if len(sr.Peek) == 0 || json.Unmarshal(sr.Peek, &p) != nil {
		return nil, false
	}
	b, _ := base64.StdEncoding.DecodeString(p.B64)
	return b, p.Found
}

var c02DevName = map[string]string{"astral": "Dev_AstralIsOneUnit", "cr": "Dev_LoneCRNotLineEnd", "both": "Dev_AstralIsOneUnit+Dev_LoneCRNotLineEnd"}

// tsJudge compares the server's cached text after every operation with TLC's expectation.
func tsJudge(c *Ctx, raw json.RawMessage, tc *tsCase, pc *proto.Case, peekAt, firstPeek []int, r *proto.Result) {
	key := string(raw)
	c.Rep.Eval(key)
	if r.Crash != "" || r.Hang {
		c.Rep.Violation(json.RawMessage(raw), fmt.Sprintf("server died or hung during text synchronisation (crash=%q hang=%v at step %d)", r.Crash, r.Hang, r.AtStep))
		return
	}
	uris := []string{}
	for u := range tc.First {
		uris = append(uris, u)
	}
	sort.Strings(uris)
	for k, u := range uris {
		got, found := peekBytes(&r.Steps[firstPeek[k]])
		want := []byte(renderDoc(tc.First[u]))
		if !found || !bytes.Equal(got, want) {
			c.Rep.Violation(json.RawMessage(raw), fmt.Sprintf("after didOpen of %s the server holds %q (found=%v), client holds %q", u, got, found, want))
			return
		}
	}
	for i, op := range tc.Ops {
		if peekAt[i] < 0 {
			continue
		}
		got, found := peekBytes(&r.Steps[peekAt[i]])
		want := []byte(renderDoc(op.Exp))
		if found && bytes.Equal(got, want) {
			continue
		}
		// which deviation subsets predict exactly this text?
		var match []string
		for _, name := range []string{"astral", "cr", "both"} {
			if a, ok := op.Alt[name]; ok && found && bytes.Equal(got, []byte(renderDoc(a))) {
				match = append(match, name)
			}
		}
		desc := fmt.Sprintf("op %d (%s on %s): server holds %q, client holds %q", i, op.K, op.U, got, want)
		if len(match) == 0 {
			c.Rep.Violation(json.RawMessage(raw), desc+" — no listed deviation predicts this text")
			return
		}
		// attribute to the smallest explaining subset
		m := match[0]
		if m == "both" {
			c.Rep.Deviation("Dev_AstralIsOneUnit", desc, json.RawMessage(raw))
			c.Rep.Deviation("Dev_LoneCRNotLineEnd", desc, json.RawMessage(raw))
		} else {
			c.Rep.Deviation(c02DevName[m], desc, json.RawMessage(raw))
		}
		return // server and model have diverged; the rest of this history carries no verdict
	}
}

func tsCfg(uris, classes string, maxDoc, maxIns, maxHist, maxBatch int, emitAll bool, next string, invs string) string {
	ea := "FALSE"
	if emitAll {
		ea = "TRUE"
	}
	return fmt.Sprintf(`CONSTANTS
  Uris = %s
  Classes = %s
  MaxDoc = %d
  MaxIns = %d
  MaxHist = %d
  MaxBatch = %d
  MaxLen = 14
  EmitAll = %s
INIT Init
NEXT %s
INVARIANTS %s
CHECK_DEADLOCK FALSE
`, uris, classes, maxDoc, maxIns, maxHist, maxBatch, ea, next, invs)
}

const allClasses = `{"a","LF","CR","c2","c3","c4"}`

func checkC02(c *Ctx) {
	c.Rep.Rule = "TLC enumerates (document, change) pairs and edit histories of TextSync.tla; each is replayed on the real server (didOpen/didChange/didSave/didClose) and the cached bytes read through the verif accessor after every notification; a case is non-trivial when it contains at least one change; distinct = distinct TLC behaviours"
	c.Rep.Assumptions = []string{
		"renderer maps abstract characters to concrete UTF-8 (a→ASCII letter, c2→U+00C0.., c3→U+4E00.., c4→U+1F600.. / U+20000.. / U+10FF00.., LF, CR) and is trusted",
		"only conformant positions are generated (valid cuts, start<=end); rangeLength is omitted (optional in LSP)",
		"quiescence after a notification is obtained with a follow-up request (jrpc2 barrier)",
	}
	if c.Replay != "" {
		replayTS(c)
		return
	}
	// 1. the reference position arithmetic has the LSP properties (pure model check over all documents)
	nd := 4 // (five characters: 9331 documents, whose invariants take longer than ten minutes on a loaded machine)
	st, err := c.TLC(tlc.Run{Module: "TextSync", Workers: 8, Timeout: 30 * time.Minute,
		Cfg: tsCfg(`{"u1"}`, allClasses, nd, 0, 0, 1, false, "Next", "TypeOK PosInjective PosMonotone IdealTotal")}, nil)
	if err != nil || st.ExitCode != 0 {
		c.Rep.Fatal(fmt.Sprintf("TLC model run failed: %v exit=%d\n%s", err, st.ExitCode, lastLines(st.Out, 15)))
		return
	}
	c.Rep.Extra["model_docs_checked"] = st.Distinct

	p := c.NewPool(0)
	type tsData struct {
		tc *tsCase
		pa []int
		fp []int
	}
	run := func(name string, r tlc.Run) bool {
		return c.streamRun(name, r, p, 64, func(id int, raw json.RawMessage) *Job {
			var tc tsCase
			if json.Unmarshal(raw, &tc) != nil {
				return nil
			}
			pc, pa, fp := tsBuild(id, &tc)
			return &Job{PC: pc, Data: &tsData{&tc, pa, fp}}
		}, func(j *Job, r *proto.Result) {
			d := j.Data.(*tsData)
			tsJudge(c, j.Raw, d.tc, j.PC, d.pa, d.fp, r)
		})
	}

	// 2. exhaustive one-change behaviours
	md, mi := 3, 1
	if c.Thorough() {
		md, mi = 4, 2
	}
	if !run("one_change_exhaustive", tlc.Run{Module: "TextSync", Workers: 8, Timeout: 40 * time.Minute,
		Cfg: tsCfg(`{"u1"}`, allClasses, md, mi, 1, 1, false, "NextRange", "Emit")}) {
		return
	}
	// 3. exhaustive two-change batches on small documents
	bd := 2
	bc := `{"a","LF","CR","c4"}`
	if c.Thorough() {
		bc = allClasses
	}
	if !run("batch2_exhaustive", tlc.Run{Module: "TextSync", Workers: 8, Timeout: 40 * time.Minute,
		Cfg: tsCfg(`{"u1"}`, bc, bd, 1, 1, 2, false, "NextBatch2", "Emit")}) {
		return
	}
	// 4. random histories over two documents, all notification kinds
	num, depth := 400, 10
	if c.Thorough() {
		num, depth = 20000, 24
	}
	if !run("histories_simulated", tlc.Run{Module: "TextSync", Workers: 1, Timeout: 40 * time.Minute,
		Simulate: fmt.Sprintf("num=%d", num), Depth: depth + 1,
		Cfg: tsCfg(`{"u1","u+2"}`, allClasses, 2, 2, depth, 2, false, "NextSim", "Emit")}) {
		return
	}
	// 5. the analysed view of further histories
	type tsVData struct{ v *tsView }
	if !c.streamRun("histories_analysed_view", tlc.Run{Module: "TextSync", Workers: 1, Timeout: 40 * time.Minute,
		Simulate: fmt.Sprintf("num=%d", num), Depth: depth + 1, Seed: c.Seed + 1000,
		Cfg: tsCfg(`{"u1","u+2"}`, `{"a"}`, 3, 2, depth, 2, false, "NextSim", "Emit")}, p, 64, func(id int, raw json.RawMessage) *Job {
		var tc tsCase
		if json.Unmarshal(raw, &tc) != nil {
			return nil
		}
		pc, v := tsBuildView(id, &tc)
		return &Job{PC: pc, Data: &tsVData{v}}
	}, func(j *Job, r *proto.Result) { tsJudgeView(c, j.Raw, j.Data.(*tsVData).v, r) }) {
		return
	}
	// 6. many documents with unsaved edits at once (the analysed view of each must still be its own edited text)
	c02ManyDocs(c, p)
	c.Rep.Exhaustive = true
	c.poolStats(p)
}

// c02ManyDocs: 26 documents are opened and each is edited without saving; then the outline of every one is asked. As
// built the analyses of unsaved texts live in a cache of 20 entries: the documents whose edit is older than the 20 most
// recent ones are answered from the file on disk (known finding Dev_UnsavedAnalysisLimit20, predicted exactly).
func c02ManyDocs(c *Ctx, p *pool.Pool) {
	const n = 26
	pc := &proto.Case{ID: 1, Files: map[string]string{}, Init: json.RawMessage(allOnLocal)}
	name := func(i int) string { return fmt.Sprintf("many%02d.lua", i) }
	for i := 0; i < n; i++ {
		pc.Files[name(i)] = fmt.Sprintf("gold%d = 1\n", i)
	}
	for i := 0; i < n; i++ {
		pc.Steps = append(pc.Steps, openStep(name(i), pc.Files[name(i)]))
	}
	for i := 0; i < n; i++ {
		pc.Steps = append(pc.Steps, proto.Step{M: "textDocument/didChange", N: true,
			P: json.RawMessage(fmt.Sprintf(`{"textDocument":{"uri":"file://$ROOT/%s","version":2},"contentChanges":[{"text":"gnew%d = 1\n"}]}`, name(i), i))})
	}
	first := len(pc.Steps)
	for i := 0; i < n; i++ {
		pc.Steps = append(pc.Steps, proto.Step{M: "textDocument/documentSymbol", P: json.RawMessage(fmt.Sprintf(`{"textDocument":{"uri":"file://$ROOT/%s"}}`, name(i)))})
	}
	raw, _ := json.Marshal(map[string]interface{}{"fam": "manydocs", "n": n})
	p.RunSlice([][]*proto.Case{{pc}}, func(_ *proto.Case, r *proto.Result) {
		c.Rep.Eval("manydocs")
		if r.Crash != "" || r.Hang {
			c.Rep.Violation(raw, fmt.Sprintf("server died or hung with %d edited documents open (crash=%q)", n, r.Crash))
			return
		}
		for i := 0; i < n; i++ {
			rep := string(r.Steps[first+i].Reply)
			hasNew, hasOld := strings.Contains(rep, fmt.Sprintf(`"gnew%d"`, i)), strings.Contains(rep, fmt.Sprintf(`"gold%d"`, i))
			desc := fmt.Sprintf("%d documents open, each edited without saving: the outline of %s (edited %d edits before the last) answers %s; the client holds \"gnew%d = 1\"", n, name(i), n-1-i, clip(rep, 160), i)
			switch {
			case hasNew && !hasOld:
			case hasOld && !hasNew && i < n-20:
				c.Rep.Deviation("Dev_UnsavedAnalysisLimit20", desc, raw)
			default:
				c.Rep.Violation(raw, desc)
			}
		}
	})
	c.Rep.Traces++
}

func replayTS(c *Ctx) {
	raw, err := loadReplayCase(c.Replay)
	if err != nil {
		c.Rep.Fatal(err.Error())
		return
	}
	var tc tsCase
	if err := json.Unmarshal(raw, &tc); err != nil {
		c.Rep.Fatal("bad replay case: " + err.Error())
		return
	}
	pc, pa, fp := tsBuild(1, &tc)
	p := c.NewPool(1)
	p.RunSlice([][]*proto.Case{{pc}}, func(_ *proto.Case, r *proto.Result) {
		tsJudge(c, raw, &tc, pc, pa, fp, r)
	})
	c.Rep.Sample(map[string]interface{}{"replayed": raw}, 1)
}
