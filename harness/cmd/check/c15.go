package main

import (
	"encoding/json"
	"fmt"
	"sort"
	"strings"
	"time"
	"verifharness/internal/pool"

	"verifharness/internal/proto"
	"verifharness/internal/tlc"
)

func init() { registry["C15"] = checkC15 }

type cgCase struct {
	Parents      map[string][]string `json:"parents"`
	Shared       []string            `json:"shared"`
	Alias        map[string]string   `json:"alias"`
	Ty           string              `json:"ty"`
	Wrap         string              `json:"wrap"`
	Where        string              `json:"where"`
	Layout       string              `json:"layout"`
	Split        string              `json:"split"`
	Target       string              `json:"target"`
	Members      []string            `json:"members"`
	MembersDev   []string            `json:"membersdev"`
	MembersAfter []string            `json:"membersafter"`
	Decl         map[string][]string `json:"decl"`
}

type cgData struct {
	tc        *cgCase
	files     map[string]string
	fieldAt   map[string][2]string // "file:line" -> (class, field)
	defStep   map[string]int       // field -> step of definition on v.<field>
	compStep2 int
	compStep  int
	all       []string
}

func cgBuild(id int, raw json.RawMessage) *Job {
	var tc cgCase
	if json.Unmarshal(raw, &tc) != nil {
		return nil
	}
	d := &cgData{tc: &tc, files: map[string]string{}, fieldAt: map[string][2]string{}, defStep: map[string]int{}}
	classes := []string{"KA", "KB", "KC"}
	isClass := map[string]bool{"KA": true, "KB": true, "KC": true}
	isShared := map[string]bool{}
	for _, c := range tc.Shared {
		isShared[c] = true
	}
	// the class declarations are spread over files as the layout says (default: KA and KB in types1.lua, KC in types2.lua)
	// every second hierarchy is written without blank lines between the class blocks (one comment block holds several classes)
	tight := hash64(string(raw), 7)%2 == 1
	text := map[string]*strings.Builder{"types1.lua": {}, "types2.lua": {}, "types3.lua": {}}
	lineNo := map[string]int{}
	for _, c := range classes {
		f := "types1.lua"
		switch {
		case tc.Layout == "ABC":
		case tc.Layout == "A|B|C" && c == "KB":
			f = "types3.lua"
		case c == "KC":
			f = "types2.lua"
		}
		sb := text[f]
		hdr := "---@class " + c
		if ps := tc.Parents[c]; len(ps) > 0 {
			sort.Strings(ps)
			hdr += " : " + strings.Join(ps, ", ")
		}
		sb.WriteString(hdr + "\n")
		lineNo[f]++
		sb.WriteString("---@field f_" + c + " number\n")
		d.fieldAt[fmt.Sprintf("%s:%d", f, lineNo[f])] = [2]string{c, "f_" + c}
		lineNo[f]++
		if isShared[c] {
			sb.WriteString("---@field fshared string\n")
			d.fieldAt[fmt.Sprintf("%s:%d", f, lineNo[f])] = [2]string{c, "fshared"}
			lineNo[f]++
		}
		if !tight {
			sb.WriteString("\n")
			lineNo[f]++
		}
	}
	d.files["types1.lua"] = text["types1.lua"].String()
	d.files["types2.lua"] = text["types2.lua"].String()
	d.files["types3.lua"] = text["types3.lua"].String()
	if isClass[tc.Split] {
		// the second declaration of the split class, in a file of its own
		d.files["types4.lua"] = "---@class " + tc.Split + "\n---@field f_" + tc.Split + "x number\n"
		d.fieldAt["types4.lua:1"] = [2]string{tc.Split, "f_" + tc.Split + "x"}
	}
	var mb strings.Builder
	ml := 0
	// wrapT writes the wrapper around a type name
	wrapT := func(t string) string {
		switch tc.Wrap {
		case "array":
			return t + "[]"
		case "array2":
			return t + "[][]"
		case "dict":
			return "table<string, " + t + ">"
		}
		return t
	}
	for _, a := range []string{"X", "Y"} {
		if t, ok := tc.Alias[a]; ok {
			if tc.Where == "alias" && isClass[t] {
				t = wrapT(t)
			}
			mb.WriteString("---@alias " + a + " " + t + "\n")
			ml++
		}
	}
	mb.WriteString("\n")
	ml++
	tyx, idx := tc.Ty, ""
	switch tc.Wrap {
	case "array":
		idx = "[1]"
	case "array2":
		idx = "[1][2]"
	case "dict":
		idx = `["k"]`
	}
	if tc.Where != "alias" {
		tyx = wrapT(tc.Ty)
	}
	mb.WriteString("---@type " + tyx + "\nlocal v = {}\n")
	ml += 2
	d.all = []string{"fshared"}
	for _, c := range classes {
		d.all = append(d.all, "f_"+c)
	}
	if isClass[tc.Split] {
		d.all = append(d.all, "f_"+tc.Split+"x")
	}
	sort.Strings(d.all)
	type probe struct {
		field     string
		line, col int
	}
	var probes []probe
	for i, f := range d.all {
		stmt := fmt.Sprintf("local q%d = v%s.%s", i, idx, f)
		probes = append(probes, probe{f, ml, strings.LastIndex(stmt, ".") + 1})
		mb.WriteString(stmt + "\n")
		ml++
	}
	main := mb.String()
	d.files["main.lua"] = main
	// completion is asked in a second file that has the same annotations but none of the probe lines (which mention
	// every field name and would feed the member list themselves)
	var cb strings.Builder
	cl := 0
	for _, a := range []string{"X", "Y"} {
		if t, ok := tc.Alias[a]; ok {
			if tc.Where == "alias" && isClass[t] {
				t = wrapT(t)
			}
			cb.WriteString("---@alias " + a + "c " + strings.Replace(strings.Replace(t, "X", "Xc", 1), "Y", "Yc", 1) + "\n")
			cl++
		}
	}
	tyc := tc.Ty
	if tyc == "X" || tyc == "Y" {
		tyc += "c"
	}
	tyxc := tyc
	if tc.Where != "alias" {
		tyxc = wrapT(tyc)
	}
	cb.WriteString("\n---@type " + tyxc + "\nlocal w = {}\n")
	cl += 3
	comp := cb.String()
	d.files["comp.lua"] = comp
	pc := &proto.Case{ID: id, Files: d.files, Init: json.RawMessage(allOnLocal)}
	pc.Steps = append(pc.Steps, openStep("main.lua", main))
	for _, p := range probes {
		pc.Steps = append(pc.Steps, proto.Step{M: "textDocument/definition", P: posParams("main.lua", p.line, p.col)})
		d.defStep[p.field] = len(pc.Steps) - 1
	}
	// the user types  w<idx>.  on a new last line of comp.lua and asks for members
	typed := "w" + idx + "."
	pc.Steps = append(pc.Steps, openStep("comp.lua", comp))
	pc.Steps = append(pc.Steps, changeStep("comp.lua", 2, cl, 0, cl, 0, typed+"\n"))
	pc.Steps = append(pc.Steps, proto.Step{M: "textDocument/completion",
		P: json.RawMessage(fmt.Sprintf(`{"textDocument":{"uri":"file://$ROOT/comp.lua"},"position":{"line":%d,"character":%d},"context":{"triggerKind":2,"triggerCharacter":"."}}`, cl, len(typed)))})
	d.compStep = len(pc.Steps) - 1
	d.compStep2 = -1
	if tc.Layout != "ABC" && tc.Split == "none" {
		// second phase: the file that holds class KC alone is deleted and the deletion reported; the members are then
		// those of the hierarchy without KC (ClassGraph.tla MembersAfter)
		pc.Steps = append(pc.Steps, proto.Step{M: "fs.delete", Path: "types2.lua"}, watched("types2.lua", 3),
			proto.Step{M: "textDocument/completion",
				P: json.RawMessage(fmt.Sprintf(`{"textDocument":{"uri":"file://$ROOT/comp.lua"},"position":{"line":%d,"character":%d},"context":{"triggerKind":2,"triggerCharacter":"."}}`, cl, len(typed)))})
		d.compStep2 = len(pc.Steps) - 1
	}
	return &Job{PC: pc, Data: d}
}

func cgJudge(c *Ctx, j *Job, res *proto.Result) {
	d := j.Data.(*cgData)
	c.Rep.Eval(string(j.Raw))
	desc0 := fmt.Sprintf("parents=%v shared=%v alias=%v type=%s/%s(wrapper on %s) files=%s split=%s", d.tc.Parents, d.tc.Shared, d.tc.Alias, d.tc.Ty, d.tc.Wrap, d.tc.Where, d.tc.Layout, d.tc.Split)
	if res.Crash != "" || res.Hang {
		desc := fmt.Sprintf("server died or hung on an annotation hierarchy (%s): crash=%q hang=%v at step %d", desc0, res.Crash, res.Hang, res.AtStep)
		if surveyMode {
			sv.add("CRASH "+firstWords(res.Crash, 8), desc)
			return
		}
		c.Rep.Violation(j.Raw, desc)
		return
	}
	judgeWith := func(ms []string) []string {
		members := map[string]bool{}
		for _, m := range ms {
			members[m] = true
		}
		var prob []string
		labels, ok := compLabels(res.Steps[d.compStep].Reply)
		if !ok {
			prob = append(prob, "completion reply not understood")
		}
		got := map[string]bool{}
		for _, l := range labels {
			got[l] = true
		}
		for _, f := range d.all {
			if members[f] && !got[f] {
				prob = append(prob, "member completion misses "+f)
			}
			if !members[f] && got[f] {
				prob = append(prob, "member completion offers "+f+" which the type does not have")
			}
		}
		for _, f := range d.all {
			locs, _ := projLocs(res.Root, res.Steps[d.defStep[f]].Reply)
			if !members[f] {
				// falling back to the variable's own declaration / annotation is not "offering a member"; landing on a
				// ---@field line is
				for _, l := range locs {
					if _, isField := d.fieldAt[fmt.Sprintf("%s:%d", l.File, l.SL)]; isField {
						prob = append(prob, fmt.Sprintf("definition on v.%s leads to the field line %s:%d although the type has no such member", f, l.File, l.SL))
					}
				}
				continue
			}
			okDef := false
			if len(locs) == 1 {
				if cf, ok := d.fieldAt[fmt.Sprintf("%s:%d", locs[0].File, locs[0].SL)]; ok && cf[1] == f {
					for _, dc := range d.tc.Decl[f] {
						if dc == cf[0] {
							okDef = true
						}
					}
				}
			}
			if !okDef {
				prob = append(prob, fmt.Sprintf("definition on v.%s leads to %v, not to the ---@field line of a declaring class %v", f, locs, d.tc.Decl[f]))
			}
		}
		return prob
	}
	prob := judgeWith(d.tc.Members)
	if len(prob) > 0 && d.tc.MembersDev != nil && strings.Join(d.tc.MembersDev, ",") != strings.Join(d.tc.Members, ",") && len(judgeWith(d.tc.MembersDev)) == 0 {
		c.Rep.Deviation("Dev_SplitClassLocalDeclarationHidesOthers", fmt.Sprintf("%s: the members are those of the reference closure without the field of the split class's second declaration %v", desc0, d.tc.MembersDev), j.Raw)
		return
	}
	if len(prob) == 0 && d.compStep2 >= 0 {
		after := map[string]bool{}
		for _, m := range d.tc.MembersAfter {
			after[m] = true
		}
		labels, _ := compLabels(res.Steps[d.compStep2].Reply)
		got := map[string]bool{}
		for _, l := range labels {
			got[l] = true
		}
		for _, f := range d.all {
			if after[f] && !got[f] {
				prob = append(prob, "after types2.lua (class KC) is deleted, member completion misses "+f)
			}
			if !after[f] && got[f] {
				prob = append(prob, "after types2.lua (class KC) is deleted, member completion still offers "+f)
			}
		}
	}
	if len(prob) == 0 {
		return
	}
	sort.Strings(prob)
	desc := fmt.Sprintf("%s (members by the reference closure: %v): %s\n-- types1.lua\n%s-- types2.lua\n%s-- types3.lua\n%s-- main.lua\n%s", desc0, d.tc.Members, strings.Join(prob, "; "), d.files["types1.lua"], d.files["types2.lua"], d.files["types3.lua"], d.files["main.lua"])
	if surveyMode {
		for _, p := range prob {
			sv.add(d.tc.Wrap+" "+firstWords(p, 3), desc)
		}
		return
	}
	c.Rep.Violation(j.Raw, desc)
}

func firstWords(s string, n int) string {
	w := strings.Fields(s)
	if len(w) > n {
		w = w[:n]
	}
	return strings.Join(w, " ")
}

func checkC15(c *Ctx) {
	c.Rep.Rule = "ClassGraph.tla enumerates annotation hierarchies over three classes (every parent relation incl. self-loops, cycles, diamonds; a shared field name declared by any subset of classes; two aliases incl. alias chains and alias cycles) and a variable typed with a class or alias, plain, as array element or as map value (the wrapper written on the ---@type line or inside the alias that names the class); Members and Declarers are the reference closure. Each case is rendered (class declarations in one, two or three files), member completion after typing 'v.' (v[1]. / v[\"k\"].) and go-to-definition on every field name are requested from a fresh real server: labels must be exactly Members, definitions must land on the ---@field line of a declaring class (nothing for non-members), and nothing may crash or hang; distinct = distinct hierarchies x queries"
	c.Rep.Assumptions = []string{
		"an alias cycle denotes no type (no members)",
		"when several reachable classes declare the shared field, any of them is an acceptable definition target",
		"members added by assignment through the class variable (documented extension) are checked by one hand-written workspace (plain local, global, member of a global table, inherited), not generated",
	}
	cfg := fmt.Sprintf("CONSTANTS\n  Classes = {\"KA\",\"KB\",\"KC\"}\n  Level = %q\nINIT Init\nNEXT Next\nINVARIANTS MembersMonotone SelfMember CycleSafe DeleteShrinks Emit\nCHECK_DEADLOCK FALSE\n", c.Tier)
	if c.Replay != "" {
		raw, err := loadReplayCase(c.Replay)
		if err != nil {
			c.Rep.Fatal(err.Error())
			return
		}
		jb := cgBuild(1, raw)
		jb.Raw = raw
		p := c.NewPool(1)
		p.RunSlice([][]*proto.Case{{jb.PC}}, func(_ *proto.Case, r *proto.Result) { cgJudge(c, jb, r) })
		return
	}
	p := c.NewPool(0)
	if !c.streamRun("hierarchies", tlc.Run{Module: "ClassGraph", Workers: 8, Timeout: 60 * time.Minute, Cfg: cfg}, p, 8, cgBuild, func(j *Job, r *proto.Result) { cgJudge(c, j, r) }) {
		return
	}
	c.Rep.Exhaustive = true
	c15Assigned(c, p)
	c.poolStats(p)
	if surveyMode {
		sv.dump()
	}
}

// c15Assigned: the documented extension of the member set -- members assigned through the variable that follows the
// ---@class line, in the declaring file -- for a class declared on a plain local, on a global, and on a member of a
// global table (a namespace), and inherited by a child class.
func c15Assigned(c *Ctx, p *pool.Pool) {
	types := "UI = {}\n---@class Button\n---@field text string\nUI.Button = {}\nUI.Button.width = 10\nfunction UI.Button.click() end\n\n" +
		"---@class Plain\n---@field pf number\nlocal PlainV = {}\nPlainV.extra = 1\nfunction PlainV.run() end\n\n" +
		"---@class Glob\n---@field gf number\nGlobV = {}\nGlobV.more = 2\n\n---@class Panel : Button\n---@field pad number\n\nprint(PlainV)\n"
	comp := "---@type Button\nlocal wb = {}\n---@type Plain\nlocal wp = {}\n---@type Glob\nlocal wg = {}\n---@type Panel\nlocal wn = {}\nprint(wb, wp, wg, wn)\n"
	want := map[string][]string{"wb": {"text", "width", "click"}, "wp": {"pf", "extra", "run"}, "wg": {"gf", "more"}, "wn": {"pad", "text", "width", "click"}}
	vars := []string{"wb", "wp", "wg", "wn"}
	pc := &proto.Case{ID: 1, Files: map[string]string{"types.lua": types, "comp.lua": comp}, Init: json.RawMessage(allOnLocal)}
	pc.Steps = append(pc.Steps, openStep("comp.lua", comp))
	nl := strings.Count(comp, "\n")
	prev := 0
	var at []int
	for i, v := range vars {
		typed := v + "."
		pc.Steps = append(pc.Steps, changeStep("comp.lua", i+2, nl, 0, nl, prev, typed))
		prev = len(typed)
		pc.Steps = append(pc.Steps, proto.Step{M: "textDocument/completion",
			P: json.RawMessage(fmt.Sprintf(`{"textDocument":{"uri":"file://$ROOT/comp.lua"},"position":{"line":%d,"character":%d},"context":{"triggerKind":2,"triggerCharacter":"."}}`, nl, len(typed)))})
		at = append(at, len(pc.Steps)-1)
	}
	raw, _ := json.Marshal(map[string]interface{}{"fam": "assigned-members"})
	p.RunSlice([][]*proto.Case{{pc}}, func(_ *proto.Case, res *proto.Result) {
		c.Rep.Eval("assigned-members")
		if res.Crash != "" || res.Hang {
			c.Rep.Violation(raw, fmt.Sprintf("members assigned through the class variable: server died or hung (crash=%q)", res.Crash))
			return
		}
		var prob []string
		for i, v := range vars {
			labels, _ := compLabels(res.Steps[at[i]].Reply)
			got := map[string]bool{}
			for _, l := range labels {
				got[l] = true
			}
			for _, w := range want[v] {
				if !got[w] {
					prob = append(prob, fmt.Sprintf("%s. misses %s", v, w))
				}
			}
		}
		if len(prob) == 0 {
			return
		}
		desc := fmt.Sprintf("members declared by ---@field and assigned through the class variable in the declaring file: %s\n-- types.lua\n%s", strings.Join(prob, "; "), types)
		if surveyMode {
			sv.add("assigned-members", desc)
			return
		}
		c.Rep.Violation(raw, desc)
	})
	c.Rep.Traces++
}
