package main

import (
	"encoding/json"
	"fmt"
	"sort"
	"strings"

	"verifharness/internal/proto"
)

func init() { registry["C06"] = checkC06 }

type c06Data struct {
	tc *scCase
	r  *scRender
	q  []c05Query
}

func refParams(file string, line, col int) json.RawMessage {
	return json.RawMessage(fmt.Sprintf(`{"textDocument":{"uri":"file://$ROOT/%s"},"position":{"line":%d,"character":%d},"context":{"includeDeclaration":true}}`, file, line, col))
}

func c06Build(id int, raw json.RawMessage) *Job {
	var tc scCase
	if json.Unmarshal(raw, &tc) != nil {
		return nil
	}
	scMarkAttr(tc.Items) // every second initialised local that is never assigned again carries <const>
	r := scRenderMode(tc.Items, scModeOf(raw, scSeed))
	pc := &proto.Case{ID: id, Files: r.files(), Init: json.RawMessage(allOnLocal)}
	scMaybeProject(pc, r)
	scOpenSteps(pc, r)
	d := &c06Data{tc: &tc, r: r}
	for i, o := range r.Occ {
		pc.Steps = append(pc.Steps, proto.Step{M: "textDocument/references", P: refParams(r.Files[o.File], o.Line, o.Col)})
		d.q = append(d.q, c05Query{i, false, len(pc.Steps) - 1})
	}
	return &Job{PC: pc, Data: d}
}

// classKey: the variable an occurrence denotes according to TLC's bindings.
func classKey(o *occ) string {
	switch o.Role {
	case "decl":
		return fmt.Sprintf("L%d", o.Decl)
	case "gdef":
		return "G" + o.Name
	default:
		if o.B > 0 {
			return fmt.Sprintf("L%d", o.B)
		}
		return "G" + o.Name
	}
}

func occPos(r *scRender, o *occ) string {
	return fmt.Sprintf("%s:%d:%d", r.Files[o.File], o.Line, o.Col)
}

// As-built reference semantics (known findings), in terms of the alternatives TLC attached:
//   - the query position is resolved by the deviating definition lookup (any alt);
//   - the occurrence search binds every occurrence ideally except for Dev_EmptyLocalReboundHidesDecl (alt.hide);
//   - a global defined in both files is treated as one symbol per file (Dev_GlobalDefinedInTwoFilesSplit);
//   - an assignment to global n inside `function n() .. end` is not listed (Dev_GlobalWriteInsideOwnFunction).
func keyOfBinding(name string, b int) string {
	if b > 0 {
		return fmt.Sprintf("L%d", b)
	}
	return "G" + name
}

func queryKey(o *occ) (string, string) {
	for dev, b := range o.Alt {
		return keyOfBinding(o.Name, b), dev
	}
	return classKey(o), ""
}

func searchKey(o *occ) (string, string) {
	if b, ok := o.Alt["Dev_EmptyLocalReboundHidesDecl"]; ok {
		return keyOfBinding(o.Name, b), "Dev_EmptyLocalReboundHidesDecl"
	}
	return classKey(o), ""
}

// classExpect computes, from TLC's bindings, the positions of the occurrences of o's variable (want), the
// as-built prediction (awant) with the deviations it relies on, and whether the case is UNSPECIFIED.
// scLoose: positions that the as-built search may or may not list for the last classExpect call
// (Dev_GlobalNamedLikeUnresolvedRequire: occurrences of global x in a file that requires an unprovided module x).
var scLoose []string

// looseMatch: got lists base except for some of the loose positions, and nothing else.
func looseMatch(got, base, loose []string) bool {
	if len(loose) == 0 {
		return false
	}
	in := func(set []string, x string) bool {
		for _, y := range set {
			if y == x {
				return true
			}
		}
		return false
	}
	for _, g := range got {
		if !in(base, g) {
			return false
		}
	}
	for _, b := range base {
		if !in(got, b) && !in(loose, b) {
			return false
		}
	}
	return true
}

func classExpect(tc *scCase, r *scRender, o *occ) (want, awant []string, devs map[string]bool, unspecified bool) {
	devs = map[string]bool{}
	gfiles := map[string]map[int]bool{}
	for _, g := range tc.GDefs {
		if gfiles[g.N] == nil {
			gfiles[g.N] = map[int]bool{}
		}
		gfiles[g.N][g.File-1] = true
	}
	for i := range r.Occ {
		oo := &r.Occ[i]
		if classKey(oo) == classKey(o) {
			want = append(want, occPos(r, oo))
		}
	}
	sort.Strings(want)
	if strings.HasPrefix(classKey(o), "G") && len(gdefIDs(tc, o.Name)) == 0 {
		// a name that is defined nowhere: whether it counts as "a global of the workspace" is not settled
		// by the statement (UNSPECIFIED); the request still exercises the server.
		return want, nil, devs, true
	}
	qk, dev1 := queryKey(o)
	if dev1 != "" {
		devs[dev1] = true
	}
	if strings.HasPrefix(qk, "G") && len(gdefIDs(tc, o.Name)) == 0 {
		return want, nil, devs, false // resolves to nothing
	}
	split := strings.HasPrefix(qk, "G") && len(gfiles[o.Name]) > 1
	// as-built (Dev_GlobalNamedLikeUnresolvedRequire): in a file that requires a module x which no workspace file provides,
	// the name x is taken for the module's own global (require("lfs"); lfs.mkdir(..)) and its uses are not searched
	unres := map[int]map[string]bool{}
	exists := map[string]bool{}
	for k := range r.Files {
		exists[scModName(k)] = true
	}
	fidx := 0
	for _, it := range tc.Items {
		if it.K == "file" {
			fidx++
		}
		if it.K == "require" && !exists[scModName(it.RFile-1)] {
			if unres[fidx] == nil {
				unres[fidx] = map[string]bool{}
			}
			unres[fidx][scModName(it.RFile-1)] = true
		}
	}
	scLoose = nil
	for i := range r.Occ {
		oo := &r.Occ[i]
		if strings.HasPrefix(qk, "G") && classKey(oo) == qk && unres[oo.File][oo.Name] {
			scLoose = append(scLoose, occPos(r, oo))
		}
	}
	for i := range r.Occ {
		oo := &r.Occ[i]
		sk, dv := searchKey(oo)
		if sk != qk {
			if classKey(oo) == qk && dv != "" {
				devs[dv] = true
			}
			continue
		}
		if dv != "" && classKey(oo) != qk {
			devs[dv] = true
		}
		if split && oo.File != o.File {
			devs["Dev_GlobalDefinedInTwoFilesSplit"] = true
			continue
		}
		if oo.SelfW {
			devs["Dev_GlobalWriteInsideOwnFunction"] = true
			continue
		}
		awant = append(awant, occPos(r, oo))
	}
	sort.Strings(awant)
	return
}

func c06Judge(c *Ctx, j *Job, res *proto.Result) {
	d := j.Data.(*c06Data)
	c.Rep.Eval(string(j.Raw))
	if res.Crash != "" || res.Hang {
		c.Rep.Violation(j.Raw, fmt.Sprintf("server died or hung (crash=%q hang=%v) on program:\n%s", res.Crash, res.Hang, progText(d.r)))
		return
	}
	for _, q := range d.q {
		o := &d.r.Occ[q.occ]
		sr := &res.Steps[q.step]
		locs, ok := projLocs(res.Root, sr.Reply)
		if !ok || len(sr.Err) > 0 {
			c.Rep.Violation(j.Raw, fmt.Sprintf("references request failed: reply=%s err=%s", sr.Reply, sr.Err))
			return
		}
		var got []string
		bad := ""
		for _, l := range locs {
			got = append(got, fmt.Sprintf("%s:%d:%d", l.File, l.SL, l.SC))
			oo := d.r.occAt(l.File, l.SL, l.SC)
			if oo == nil || l.EL != l.SL || l.EC != l.SC+len(oo.Name) {
				bad = fmt.Sprintf("range %v does not cover an identifier occurrence", l)
			}
		}
		sort.Strings(got)
		got = uniq(got)
		want, awant, devs, unspec := classExpect(d.tc, d.r, o)
		if unspec {
			continue
		}
		if bad == "" && strings.Join(got, " ") == strings.Join(want, " ") {
			continue
		}
		it := d.tc.Items[o.Item]
		desc := fmt.Sprintf("references on %q (%s of item %d %s/%s) at %s answers {%s}; the occurrences Lua binds to the same variable are {%s} %s\n%s",
			o.Name, o.Role, o.Item, it.K, it.Fl, occPos(d.r, o), strings.Join(got, " "), strings.Join(want, " "), bad, progText(d.r))
		if bad == "" && len(devs) > 0 && strings.Join(got, " ") == strings.Join(awant, " ") {
			for dv := range devs {
				if surveyMode {
					sv.add("DEV "+dv, desc)
				}
				c.Rep.Deviation(dv, desc, j.Raw)
			}
			continue
		}
		if bad == "" && (looseMatch(got, want, scLoose) || looseMatch(got, awant, scLoose)) {
			if surveyMode {
				sv.add("DEV Dev_GlobalNamedLikeUnresolvedRequire", desc)
			}
			c.Rep.Deviation("Dev_GlobalNamedLikeUnresolvedRequire", desc, j.Raw)
			for dv := range devs {
				c.Rep.Deviation(dv, desc, j.Raw)
			}
			continue
		}
		if surveyMode {
			missing, extra := diffSets(want, got)
			sv.add(fmt.Sprintf("%s/%s slot=%s role=%s class=%s missing=%d extra=%d bad=%v devs=%v", it.K, it.Fl, o.Slot, o.Role, classKey(o)[:1], len(missing), len(extra), bad != "", devs), desc+fmt.Sprintf("\nas-built prediction {%s}", strings.Join(awant, " ")))
			continue
		}
		c.Rep.Violation(j.Raw, desc)
		return
	}
}

func uniq(s []string) []string {
	var r []string
	for i, x := range s {
		if i == 0 || x != s[i-1] {
			r = append(r, x)
		}
	}
	return r
}

func diffSets(want, got []string) (missing, extra []string) {
	w := map[string]bool{}
	g := map[string]bool{}
	for _, x := range want {
		w[x] = true
	}
	for _, x := range got {
		g[x] = true
	}
	for _, x := range want {
		if !g[x] {
			missing = append(missing, x)
		}
	}
	for _, x := range got {
		if !w[x] {
			extra = append(extra, x)
		}
	}
	return
}

func checkC06(c *Ctx) {
	c.Rep.Rule = "programs are behaviours of Scope.tla (exhaustive up to the item bound, simulated beyond); find-references (includeDeclaration) is asked at every identifier occurrence of a fresh real server and compared, as a set of positions, with the occurrence class TLC's bindings define; distinct = distinct programs"
	c.Rep.Assumptions = []string{
		"renderer and position projection are trusted; occurrence classes are the groups of occurrences with equal TLC binding (local declaration id, or global name)",
		"ReferenceMaxNum raised to 3000 and declarations included through the priming configuration notification",
	}
	if c.Replay != "" {
		raw, err := loadReplayCase(c.Replay)
		if err != nil {
			c.Rep.Fatal(err.Error())
			return
		}
		if projReplay(c, raw, "references") {
			return
		}
		jb := c06Build(1, raw)
		jb.Raw = raw
		p := c.NewPool(1)
		p.RunSlice([][]*proto.Case{{jb.PC}}, func(_ *proto.Case, r *proto.Result) { c06Judge(c, jb, r) })
		c.Rep.Sample(map[string]interface{}{"replayed": raw}, 1)
		return
	}
	p := c.NewPool(0)
	scAvoid = `{"hide","selfw","gshallow"}`
	// files are named like the variables (a.lua, b.lua) and may require each other and return a value
	scModNames = []string{"a", "b"}
	scKinds = `{"local","local2","use","assign","assign2","do","while","if","repeat","fornum","forin","lfunc","lefunc","gfunc","meth","cfunc","file","ret","require"}`
	c.Rep.Assumptions = append(c.Rep.Assumptions, "generated domain leaves out the trigger constructs of Dev_EmptyLocalReboundHidesDecl and Dev_GlobalWriteInsideOwnFunction and of the nested-then-shallower global definition order (Scope.tla Avoid = {hide, selfw, gshallow}); those constructs are judged with exact predictions in C05")
	scopeRuns(c, p, c06Build, func(j *Job, r *proto.Result) { c06Judge(c, j, r) })
	wideGlobal(c, p, "C06", func(want, refs1, refs2, ren []string, defs map[string][]string, raw json.RawMessage) {
		for i, got := range [][]string{refs1, refs2} {
			if strings.Join(got, " ") != strings.Join(want, " ") {
				c.Rep.Violation(raw, fmt.Sprintf("a global defined in def.lua and used in 27 further files (one of them created after start-up): find-references (asked at %s) returns %d locations {%s}, the occurrences are the %d {%s}", []string{"the declaration", "a use"}[i], len(got), clip(strings.Join(got, " "), 400), len(want), clip(strings.Join(want, " "), 400)))
				return
			}
		}
	})
	// Project.tla: workspaces analysed as a project (entry file + what it requires), both modes
	projectRuns(c, p, 0, "references")
	c.poolStats(p)
	if surveyMode {
		sv.dump()
	}
}
