package main

import (
	"bytes"
	"encoding/base64"
	"encoding/json"
	"fmt"
	"sort"
	"strings"
	"time"
	"unicode/utf8"

	"verifharness/internal/proto"
	"verifharness/internal/tlc"
)

func init() { registry["C01"] = checkC01 }

var hostileByte = map[string]string{"dq": `"`, "sq": "'", "bs": `\`, "lb": "[", "eq": "=", "rb": "]", "mi": "-", "cr": "\r", "lf": "\n", "d1": "1", "x": "x",
	"e": "e", "dot": ".", "a": "a", "nul": "\x00", "c80": "\x80", "cc3": "\xc3", "ce4": "\xe4", "cf0": "\xf0", "cff": "\xff", "sp": " ", "at": "@", "lt": "<", "col": ":", "lp": "(", "hash": "#", "til": "~"}

var c01Requests = []string{"textDocument/hover", "textDocument/definition", "textDocument/references", "textDocument/rename", "textDocument/completion",
	"textDocument/signatureHelp", "textDocument/documentHighlight"}

// c01Session builds the standard session around one file: open it, every request kind at the given positions, document-level
// requests, an edit, a save, more requests, close.
func c01Session(id int, files map[string]string, filesB64 map[string]string, target string, openText string, positions [][2]int) *proto.Case {
	pc := &proto.Case{ID: id, Files: files, FilesB64: filesB64, Init: json.RawMessage(allOnLocal)}
	pc.Steps = append(pc.Steps, openStep(target, openText))
	reqs := func() {
		for _, pos := range positions {
			for _, m := range c01Requests {
				var p json.RawMessage
				switch m {
				case "textDocument/references":
					p = refParams(target, pos[0], pos[1])
				case "textDocument/rename":
					p = renameParams(target, pos[0], pos[1], "zz")
				case "textDocument/completion":
					p = compParams(target, pos[0], pos[1])
				default:
					p = posParams(target, pos[0], pos[1])
				}
				pc.Steps = append(pc.Steps, proto.Step{M: m, P: p})
			}
		}
		pc.Steps = append(pc.Steps, proto.Step{M: "textDocument/documentSymbol", P: json.RawMessage(fmt.Sprintf(`{"textDocument":{"uri":"file://$ROOT/%s"}}`, target))},
			proto.Step{M: "luahelper/getVarColor", P: json.RawMessage(fmt.Sprintf(`{"uri":"file://$ROOT/%s"}`, target))},
			proto.Step{M: "workspace/symbol", P: json.RawMessage(`{"query":"a"}`)})
	}
	reqs()
	// the user types at the end of the first line, then saves, then closes
	pc.Steps = append(pc.Steps, proto.Step{M: "textDocument/didChange", N: true, P: json.RawMessage(fmt.Sprintf(
		`{"textDocument":{"uri":"file://$ROOT/%s","version":2},"contentChanges":[{"range":{"start":{"line":0,"character":0},"end":{"line":0,"character":0}},"text":"a."}]}`, target))})
	pc.Steps = append(pc.Steps, proto.Step{M: "textDocument/completion", P: json.RawMessage(fmt.Sprintf(
		`{"textDocument":{"uri":"file://$ROOT/%s"},"position":{"line":0,"character":2},"context":{"triggerKind":2,"triggerCharacter":"."}}`, target))})
	// the editor resolves items it was offered earlier (their index refers to a list that has been replaced since)
	for _, ix := range []int{0, 4, 40} {
		pc.Steps = append(pc.Steps, proto.Step{M: "completionItem/resolve", P: json.RawMessage(fmt.Sprintf(`{"label":"print","data":%d}`, ix))})
	}
	pc.Steps = append(pc.Steps, proto.Step{M: "textDocument/didSave", N: true, P: json.RawMessage(fmt.Sprintf(`{"textDocument":{"uri":"file://$ROOT/%s"},"text":%s}`, target, jstr("a."+openText)))})
	pc.Steps = append(pc.Steps, proto.Step{M: "textDocument/hover", P: posParams(target, 0, 0)})
	// the file watcher reports files that are not (or no longer) on disk: created, changed and deleted
	pc.Steps = append(pc.Steps, proto.Step{M: "workspace/didChangeWatchedFiles", N: true,
		P: json.RawMessage(`{"changes":[{"uri":"file://$ROOT/ghost_created.lua","type":1},{"uri":"file://$ROOT/sub/ghost_changed.lua","type":2},{"uri":"file://$ROOT/ghost_deleted.lua","type":3}]}`)})
	pc.Steps = append(pc.Steps, proto.Step{M: "textDocument/hover", P: posParams(target, 0, 1)})
	pc.Steps = append(pc.Steps, proto.Step{M: "textDocument/didClose", N: true, P: json.RawMessage(fmt.Sprintf(`{"textDocument":{"uri":"file://$ROOT/%s"}}`, target))})
	return pc
}

// positions of interest in a text: both ends and the middle of every line, and two positions outside the text
func c01Positions(text string, max int) [][2]int {
	lines := lspLines(text)
	var ps [][2]int
	for li, l := range lines {
		ps = append(ps, [2]int{li, 0})
		if len(l) > 0 {
			ps = append(ps, [2]int{li, len(l)})
		}
		if len(l) > 2 {
			ps = append(ps, [2]int{li, len(l) / 2})
		}
		if len(ps) > max {
			break
		}
	}
	ps = append(ps, [2]int{len(lines) + 2, 0}, [2]int{0, 9999})
	return ps
}

func annotShape(form, target string) string {
	switch form {
	case "arr":
		return target + "[]"
	case "dict":
		return "table<string, " + target + ">"
	case "funret":
		return "fun(p: " + target + "): " + target
	case "union":
		return target + " | nil"
	case "paren":
		return "(" + target + ")"
	}
	return target
}

type c01Trace struct {
	id     int
	desc   string
	raw    json.RawMessage
	events []map[string]interface{}
	bad    bool
}

func checkC01(c *Ctx) {
	c.Rep.Rule = "conformant sessions (open, every request kind at both ends and the middle of every line and at two positions outside the text, document and workspace requests, an edit, a completion, a save, a hover, close) are run on fresh real servers over generated workspaces: (a) Hostile.tla's strings over 27 lexer-relevant byte classes (all of length <= 3, a seeded sample of length 4 quick / all thorough), (b) Hostile.tla's annotation blocks in which two aliases and a class refer to each other through every wrapper, used in seven ways, every second one with its declarations in another file than its uses, (c) enum blocks and over-long error lists, (d) a seeded sample of LuaGrammar.tla's chunks and single-token mutants, (e) position sweeps over every line:character of small buffers, (h) luahelper.json files whose ignore entries are shell globs or otherwise not regular expressions; every session also reports watched-file events for files that are not on disk; (g) hand-written files under a luahelper.json that switches the opt-in analyses 22-28 on, (f) ClassGraph.tla's class hierarchies that contain an inheritance cycle, declared in one, two or three files, with a variable of every class (a seeded third quick / all thorough). Every session is recorded as an event trace (send/reply/notify/push/tick/crash/fault) and LivenessTrace.tla replays the traces through Liveness.tla, TLC evaluating Good (alive, no swallowed internal fault, no request overdue) after every event; all other families' replays run under the same crash/hang monitor; distinct = distinct workspaces"
	c.Rep.Assumptions = []string{
		"the quantifier over bytes* is met only through these structured generators; there is no coverage-guided byte fuzzing in this family",
		"a request is overdue after 10 s without an answer (three orders of magnitude above the measured norm); the child is then killed",
		"didOpen carries the file's bytes decoded as UTF-8 with replacement characters (JSON cannot carry invalid UTF-8), the file on disk has the raw bytes",
	}
	var traces []*c01Trace
	byID := map[int]*c01Trace{}
	p := c.NewPool(0)
	p.Budget = 10 * time.Second
	id := 0
	var groups [][]*proto.Case
	stride := 15 // the event streams of every stride-th normal session go to TLC as well
	if c.Thorough() {
		stride = 200
	}
	nsessions := 0
	// ---- run, recording the event stream of every session (in batches, so that the cases need not all be in memory) ----
	handle := func(pc *proto.Case, res *proto.Result) {
		t := byID[pc.ID]
		c.Rep.Eval(t.desc)
		ev := func(e string, extra map[string]interface{}) {
			m := map[string]interface{}{"ev": e}
			for k, v := range extra {
				m[k] = v
			}
			t.events = append(t.events, m)
		}
		ev("reset", map[string]interface{}{"run": pc.ID})
		for range res.InitNtfs {
			ev("push", nil)
		}
		for i, s := range res.Steps {
			st := pc.Steps[i]
			if strings.HasPrefix(st.M, "fs.") {
				continue
			}
			if st.N {
				ev("notify", nil)
			} else {
				ev("send", map[string]interface{}{"id": i + 1})
			}
			for range s.Ntfs {
				ev("push", nil)
			}
			if !st.N && s.Got {
				for k := 0; k < int(s.Ms/1000); k++ {
					ev("tick", nil)
				}
				ev("reply", map[string]interface{}{"id": i + 1})
			} else if !st.N && !s.Got {
				break
			}
		}
		for range res.Hooks {
			ev("fault", nil)
			t.bad = true
		}
		if res.Hang {
			for k := 0; k < 10; k++ {
				ev("tick", nil)
			}
			t.bad = true
		}
		if res.Crash != "" {
			ev("crash", nil)
			t.bad = true
			t.desc += " — " + res.Crash
		}
		if len(res.Hooks) > 0 {
			t.desc += " — swallowed by the parser: " + string(res.Hooks[0])
		}
		// keep the event stream of anomalous sessions and of a sample of the others; release the rest
		if !t.bad && pc.ID%stride != 0 {
			t.events = nil
			t.raw = nil
			delete(byID, pc.ID)
		}
		pc.Steps, pc.Files, pc.FilesB64 = nil, nil, nil
	}
	add := func(desc string, raw json.RawMessage, pc *proto.Case) {
		t := &c01Trace{id: pc.ID, desc: desc, raw: raw}
		byID[pc.ID] = t
		traces = append(traces, t)
		groups = append(groups, []*proto.Case{pc})
		nsessions++
		if len(groups) >= 20000 {
			p.RunSlice(groups, handle)
			groups = nil
		}
	}
	// ---- (a) hostile byte strings ----
	var cls []string
	for k := range hostileByte {
		cls = append(cls, fmt.Sprintf("%q", k))
	}
	sort.Strings(cls)
	maxLen := 3
	runHostile := func(mode string, ml int, onJ func(json.RawMessage)) bool {
		st, err := c.TLC(tlc.Run{Module: "Hostile", Workers: 4, Timeout: 30 * time.Minute,
			Cfg: fmt.Sprintf("CONSTANTS\n  Mode = %q\n  Classes = {%s}\n  MaxLen = %d\nINIT Init\nNEXT Next\nINVARIANTS Emit\nCHECK_DEADLOCK FALSE\n", mode, strings.Join(cls, ","), ml)}, onJ)
		if err != nil || st.ExitCode != 0 {
			c.Rep.Fatal(fmt.Sprintf("Hostile.tla (%s) failed (exit %d): %v\n%s", mode, st.ExitCode, err, lastLines(st.Out, 10)))
			return false
		}
		return true
	}
	addBytes := func(raw json.RawMessage, seq []string) {
		var b bytes.Buffer
		for _, k := range seq {
			b.WriteString(hostileByte[k])
		}
		id++
		text := b.String()
		open := strings.ToValidUTF8(text, "�")
		pc := c01Session(id, nil, map[string]string{"h.lua": base64.StdEncoding.EncodeToString(b.Bytes())}, "h.lua", open, c01Positions(open, 6))
		add(fmt.Sprintf("file content %q", text), raw, pc)
	}
	if !runHostile("bytes", maxLen, func(j json.RawMessage) {
		var o struct {
			S []string `json:"s"`
		}
		if json.Unmarshal(j, &o) == nil {
			addBytes(append(json.RawMessage{}, j...), o.S)
		}
	}) {
		return
	}
	// length 4: all in the thorough tier, a seeded sample otherwise (the sample is drawn by the harness from TLC's alphabet)
	{
		var keys []string
		for k := range hostileByte {
			keys = append(keys, k)
		}
		sort.Strings(keys)
		n := len(keys)
		total := n * n * n * n
		step := total/6000 + 1
		if c.Thorough() {
			step = 1
		}
		for x := int(c.Seed) % step; x < total; x += step {
			seq := []string{keys[x%n], keys[x/n%n], keys[x/n/n%n], keys[x/n/n/n%n]}
			raw, _ := json.Marshal(map[string]interface{}{"fam": "bytes", "s": seq})
			addBytes(raw, seq)
		}
	}
	// ---- (b) annotation shapes ----
	if !runHostile("annot", 0, func(j json.RawMessage) {
		var o struct {
			A1  []string `json:"a1"`
			A2  []string `json:"a2"`
			Par []string `json:"par"`
			Use string   `json:"use"`
		}
		if json.Unmarshal(j, &o) != nil || len(o.A1) != 2 {
			return
		}
		var sb strings.Builder
		sb.WriteString("---@alias A1 " + annotShape(o.A1[0], o.A1[1]) + "\n---@alias A2 " + annotShape(o.A2[0], o.A2[1]) + "\n")
		hdr := "---@class K"
		if len(o.Par) > 0 {
			hdr += " : " + strings.Join(o.Par, ", ")
		}
		sb.WriteString(hdr + "\n---@field kf A1\n---@field kg A2[]\n\n---@type A1\nlocal v = {}\n---@type K\nlocal k = {}\n")
		switch o.Use {
		case "field":
			sb.WriteString("local r = v.kf.kf\nprint(r, k.kf.kg)\n")
		case "index":
			sb.WriteString("local r = v[1].kf\nprint(r, k.kg[1].kf)\n")
		case "key":
			sb.WriteString("local r = v[\"x\"].kf\nprint(r)\n")
		case "call":
			sb.WriteString("local r = v(1)\nprint(r.kf, k.kf(2).kg)\n")
		case "forin":
			sb.WriteString("for i, e in pairs(v) do print(i, e.kf) end\nfor _, e in ipairs(k.kg) do print(e.kg) end\n")
		case "callfield":
			sb.WriteString("local r = v.kf(1).kg\nprint(r)\n")
		case "indexindex":
			sb.WriteString("local r = v[1][2].kf\nprint(r, k.kg[1][2])\n")
		}
		text := sb.String()
		id++
		// every second block is split over two files: the declarations in types.lua, the typed variables and their uses in
		// an.lua (the declarations are then found through the workspace-wide table instead of the file's own)
		files := map[string]string{"an.lua": text}
		first := 9
		if hash64(string(j), c.Seed)%2 == 1 {
			all := strings.SplitAfter(text, "\n")
			files = map[string]string{"types.lua": strings.Join(all[:6], ""), "an.lua": strings.Join(all[6:], "")}
			text = files["an.lua"]
			first = 3
		}
		pos := [][2]int{}
		lines := strings.Split(text, "\n")
		for li := first; li < len(lines); li++ {
			for ci := 0; ci <= len(lines[li]); ci += 2 {
				pos = append(pos, [2]int{li, ci})
			}
		}
		if hash64(string(j), c.Seed)%4 >= 2 {
			// with an entry file configured the project pass analyses the same block a second way
			files["luahelper.json"] = `{"ShowWarnFlag":1,"ProjectFiles":["an.lua"]}`
		}
		pc := c01Session(id, files, nil, "an.lua", text, pos)
		desc := "annotation block\n"
		if _, ok := files["luahelper.json"]; ok {
			desc = "annotation block (project mode: entry an.lua)\n"
		}
		if t, ok := files["types.lua"]; ok {
			desc += "-- types.lua\n" + t + "-- an.lua\n"
		}
		add(desc+text, append(json.RawMessage{}, j...), pc)
	}) {
		return
	}
	// ---- (c) enum blocks, over-long error lists, odd files ----
	fixed := map[string]string{
		// a plain global defined twice (inside a function and at file level), read through _G at several depths
		"global_chain":   "function setup()\n  config = {}\n  config.name = 0\nend\nconfig = { name = 1, sub = { deep = 2 } }\nprint(_G.config.name, _G.config.sub.deep, _G.config)\n_G.config.name = 3\nprint(config.name)\n",
		"global_chain2":  "_G.state = {}\nfunction reset()\n  state = { n = 1 }\nend\nstate = { n = 2 }\nstate = { n = 3 }\nprint(_G.state.n, state.n, _G._G.state.n)\n",
		"enum_paren":     "---@enum start\nlocal E = {\n  A = (1),\n  B = ((2)),\n  C = (A),\n  D = (E.A),\n}\n---@enum end\nprint(E.A, E.B)\n",
		"enum_nested":    "---@enum start\nlocal E = { A = { B = (1) }, C = (function() return 1 end)(), D = #(\"x\") }\n---@enum end\nprint(E)\n",
		"enum_unclosed":  "---@enum start\nlocal E = { A = (1)\nprint(E)\n",
		"many_errors":    strings.Repeat("local = = \n", 45),
		"many_errors2":   strings.Repeat("if then else end end )(\n", 40),
		"deep_parens":    "local x = " + strings.Repeat("(", 300) + "1" + strings.Repeat(")", 300) + "\nprint(x)\n",
		"deep_tables":    "local x = " + strings.Repeat("{", 300) + strings.Repeat("}", 300) + "\nprint(x)\n",
		"deep_blocks":    strings.Repeat("do ", 300) + strings.Repeat("end ", 300) + "\n",
		"long_concat":    "local s = 'a'" + strings.Repeat(" .. 'a'", 2000) + "\nprint(s)\n",
		"deep_index":     "local t = {}\nprint(t" + strings.Repeat(".a", 500) + ")\n",
		"self_require":   "local m = require(\"fx\")\nreturn m\n",
		"class_self":     "---@class S : S\n---@field a S\n---@type S\nlocal s = {}\nprint(s.a.a.a)\n",
		"alias_self":     "---@alias Q Q\n---@type Q\nlocal q = {}\nprint(q.x)\n",
		"generic_loop":   "---@generic T : T\n---@param a T\n---@return T\nlocal function id(a) return a end\nprint(id(id))\n",
		"overload_loop":  "---@overload fun(a: fun(b: fun(c: fun()))): fun(): fun()\nlocal function o(a) return a end\nprint(o(o)(o))\n",
		"long_ident":     "function " + strings.Repeat("handler_a", 16) + "() end\nlocal " + strings.Repeat("ab", 70) + " = 1\nprint(" + strings.Repeat("ab", 70) + ")\n",
		"long_member":    "local t = {}\nfunction t." + strings.Repeat("member_a", 17) + "() end\nt." + strings.Repeat("xa", 80) + " = 1\nreturn t\n",
		"annot_quote1":   "---@param '\nlocal function f(m) end\nprint(f)\n",
		"annot_quote2":   "---@param m string | \"\nlocal function f(m) end\nprint(f)\n",
		"annot_quote3":   "---@alias Mode '\"r\"' | '\n---@type Mode\nlocal m = nil\nprint(m)\n",
		"annot_quote4":   "---@type \"\nlocal q = nil\n---@field a '\nprint(q)\n",
		"only_bom":       "\xef\xbb\xbf",
		"bom_code":       "\xef\xbb\xbflocal a = 1\nprint(a)\n",
		"shebang":        "#!/usr/bin/lua\nlocal a = 1\nprint(a)\n",
		"unterminated":   "local s = [==[ never closed\nprint(s)\n",
		"unterminated_c": "--[[ never closed\nlocal a = 1\n",
		"goto_loop":      "::top:: goto top\n",
		"empty":          "",
		"only_newlines":  "\n\r\n\r\n",
		"self_assign_fn": "local function f() return f end\nf = f()\nf = f()()\nprint(f)\n",
		"table_self":     "local t = {}\nt.t = t\nt.t.t.t = t\nprint(t.t.t.t.t)\n",
		"colon_chain":    "local o = {}\nfunction o:m() return self end\nprint(o:m():m():m():m())\n",
	}
	var fkeys []string
	for k := range fixed {
		fkeys = append(fkeys, k)
	}
	sort.Strings(fkeys)
	for _, k := range fkeys {
		text := fixed[k]
		id++
		open := strings.ToValidUTF8(text, "�")
		files := map[string]string{"fx.lua": text}
		raw, _ := json.Marshal(map[string]interface{}{"fam": "fixed", "name": k})
		add("hand-written stress file "+k, raw, c01Session(id, files, nil, "fx.lua", open, c01Positions(open, 10)))
	}
	// ---- (d) grammar chunks and single-token mutants through the whole server ----
	{
		var chunks [][]string
		st, err := c.TLC(tlc.Run{Module: "LuaGrammar", Workers: 8, Timeout: 30 * time.Minute,
			Cfg: "CONSTANTS\n  MaxTok = 5\n  MaxStack = 14\n  Focus = \"chunk\"\n  DevParen = FALSE\nINIT Init\nNEXT Next\nINVARIANTS Emit\nCHECK_DEADLOCK FALSE\n"},
			func(j json.RawMessage) {
				var o struct {
					Toks []string `json:"toks"`
				}
				if json.Unmarshal(j, &o) == nil {
					chunks = append(chunks, o.Toks)
				}
			})
		if err != nil || st.ExitCode != 0 {
			c.Rep.Fatal("LuaGrammar.tla failed in C01")
			return
		}
		sort.Slice(chunks, func(i, j int) bool { return strings.Join(chunks[i], " ") < strings.Join(chunks[j], " ") })
		per := len(chunks)/1500 + 1
		if c.Thorough() {
			per = len(chunks)/15000 + 1
		}
		for i, ch := range chunks {
			if i%per != int(c.Seed)%per {
				continue
			}
			h := hash64(strings.Join(ch, " "), c.Seed)
			variants := [][]string{ch}
			if len(ch) > 1 {
				k := int(h % uint64(len(ch)))
				variants = append(variants, append(append([]string{}, ch[:k]...), ch[k+1:]...))
				sub := append([]string{}, ch...)
				sub[k] = tokAlphabet[(h>>9)%uint64(len(tokAlphabet))]
				variants = append(variants, sub)
			}
			for _, v := range variants {
				text := renderToks(v, h)
				id++
				raw, _ := json.Marshal(map[string]interface{}{"fam": "grammar", "toks": v})
				add(fmt.Sprintf("token kinds %v spelled %q", v, text), raw, c01Session(id, map[string]string{"g.lua": text}, nil, "g.lua", text, c01Positions(text, 4)))
			}
		}
	}
	// ---- (e) position sweeps: every request kind at every line:character (and one past) of small buffers ----
	sweeps := []string{"local a = 1\nprint(a.b.c)\n", "a.\n", "local t = {\n  x = 1,\n}\nt:\n", "f(\n", "local s = \"é😀\" .. x\n", "---@type \nlocal v\nv.\n", "require(\"\")\n", "\r\n\rlocal x\r"}
	for si, text := range sweeps {
		var pos [][2]int
		for li, l := range lspLines(text) {
			for ci := 0; ci <= len(l)+1; ci++ {
				pos = append(pos, [2]int{li, ci})
			}
		}
		id++
		raw, _ := json.Marshal(map[string]interface{}{"fam": "sweep", "text": text})
		add(fmt.Sprintf("position sweep over %q", text), raw, c01Session(id, map[string]string{fmt.Sprintf("s%d.lua", si): text}, nil, fmt.Sprintf("s%d.lua", si), text, pos))
	}
	// ---- (g) the opt-in analyses (types 22-28: class fields, const assignment, call parameter types, return counts,
	// assignment and operator types, uncalled local functions) switched on through luahelper.json ----
	optin := map[string]string{
		"calls_plain":  "local function add(a, b) return a + b end\nadd(1, 2)\nadd(3, 4)\nprint(add(5, 6), add)\n",
		"calls_typed":  "---@param a number\n---@param b string\n---@return number\nlocal function f(a, b) return a end\nf(1, \"x\")\nf(\"x\", 1)\nf(1)\nf(1, 2, 3)\nlocal r = f(nil, nil)\nprint(r)\n",
		"calls_method": "local t = {}\n---@param n number\nfunction t:m(n) return n end\nfunction t.s(a, b) return a, b end\nt:m(1)\nt:m(\"s\")\nt.s(t, 1)\nt.s()\nprint(t:m(2))\n",
		"class_fields": "---@class P\n---@field x number\n---@field name string\n\n---@type P\nlocal p = { x = 1, y = 2, name = 3 }\np.x = \"s\"\np.z = 1\n---@type P\nlocal q = {}\nq.name = p.x\nprint(p, q)\n",
		"const_assign": "local c <const> = 1\nc = 2\nlocal d <close> = nil\nd = c\n---@type number\nlocal n = 1\nn = \"s\"\nn = {}\nn = nil\nprint(c, d, n)\n",
		"returns":      "---@return number, string\nlocal function r2() return 1 end\nlocal function r0() return end\nlocal function never() return 1, 2, 3 end\nlocal a, b, c = r2()\nlocal d = r0()\nprint(a, b, c, d)\n",
		"binops":       "---@type number\nlocal n = 1\n---@type string\nlocal s = \"a\"\n---@type table\nlocal t = {}\nprint(n + s, s .. t, t < n, -s, #n, n == s, n and t, not t)\n",
		"cross_calls":  "local m = require(\"fx2\")\nm.go(1, 2)\nm.go()\nglobalfn(1)\nglobalfn(\"a\", \"b\")\n",
	}
	optin["field_vs_method"] = "---@class P\n---@field m number\n---@field n fun(a: number): string\n\n---@type P\nObj = {}\nfunction Obj:m(a) return a end\nfunction Obj.n(a) return a end\nObj:m(1)\nprint(Obj.n(2))\n"
	// with an entry file configured the project pass runs as well (ProjectFiles)
	optCfg := `{"ShowWarnFlag":1,"ProjectFiles":["fx.lua"],"OpenErrorTypes":[22,23,24,25,26,27,28]}`
	var okeys2 []string
	for k := range optin {
		okeys2 = append(okeys2, k)
	}
	sort.Strings(okeys2)
	for _, k := range okeys2 {
		text := optin[k]
		id++
		files := map[string]string{"fx.lua": text, "luahelper.json": optCfg,
			"fx2.lua": "local M = {}\n---@param a number\nfunction M.go(a, b) return a end\n---@param s string\nfunction globalfn(s) return s end\nreturn M\n"}
		raw, _ := json.Marshal(map[string]interface{}{"fam": "optin", "name": k})
		add("opt-in analyses on "+k+"\n"+text, raw, c01Session(id, files, nil, "fx.lua", text, c01Positions(text, 10)))
	}
	// ---- (i) more entry files than the project pass has workers (its pool hands out the remaining entries one by one) ----
	for _, n := range []int{3, 40, 70} {
		files := map[string]string{"shared.lua": "shared_g = 1\nfunction shared_f(a) return a end\n"}
		var entries []string
		text := ""
		for e := 0; e < n; e++ {
			fn := fmt.Sprintf("entry%02d.lua", e)
			text = fmt.Sprintf("require(\"shared\")\nlocal v%d = shared_f(shared_g)\nprint(v%d)\n", e, e)
			files[fn] = text
			entries = append(entries, fmt.Sprintf("%q", fn))
		}
		files["luahelper.json"] = `{"ShowWarnFlag":1,"ProjectFiles":[` + strings.Join(entries, ",") + `]}`
		id++
		raw, _ := json.Marshal(map[string]interface{}{"fam": "entries", "n": n})
		last := fmt.Sprintf("entry%02d.lua", n-1)
		add(fmt.Sprintf("%d entry files in ProjectFiles, session on the last one", n), raw, c01Session(id, files, nil, last, text, c01Positions(text, 6)))
	}
	// ---- (h) luahelper.json whose ignore entries are not regular expressions (shell globs, stray brackets), over a
	// workspace that has diagnostics to filter ----
	for ci, cfgText := range []string{
		`{"ShowWarnFlag":1,"IgnoreFileErr":["*_gen.lua","[gen"]}`,
		`{"ShowWarnFlag":1,"IgnoreFileErrTypes":[{"File":"*_gen.lua","Types":[4]},{"File":"(x","Types":[1,2]}]}`,
		`{"ShowWarnFlag":1,"IgnoreFileOrFloder":["*_gen.lua","c++/","+x/"]}`,
		`{"ShowWarnFlag":1,"IgnoreFileErr":["a_gen.lua"],"IgnoreLocalNoUseVars":["*"],"IgnoreWildcardModules":["[","*"],"IgnoreFileVars":[{"File":"*","Vars":["["]}]}`,
	} {
		text := "local unused_a = 1\nprint(undefined_b)\nlocal t = { k = 1, k = 2 }\nprint(t)\n"
		id++
		files := map[string]string{"fx.lua": text, "a_gen.lua": "local g = \nprint(undefined_g)\n", "luahelper.json": cfgText}
		raw, _ := json.Marshal(map[string]interface{}{"fam": "badconfig", "n": ci})
		add("ignore entries that are not regular expressions: "+cfgText, raw, c01Session(id, files, nil, "fx.lua", text, c01Positions(text, 6)))
	}
	// ---- (f) class hierarchies with an inheritance cycle (ClassGraph.tla, Level "cycles"), in every file layout ----
	{
		st, err := c.TLC(tlc.Run{Module: "ClassGraph", Workers: 4, Timeout: 30 * time.Minute,
			Cfg: "CONSTANTS\n  Classes = {\"KA\",\"KB\",\"KC\"}\n  Level = \"cycles\"\nINIT Init\nNEXT Next\nINVARIANTS Emit\nCHECK_DEADLOCK FALSE\n"},
			func(j json.RawMessage) {
				jb := cgBuild(0, j)
				if jb == nil {
					return
				}
				d := jb.Data.(*cgData)
				h := hash64(string(j), c.Seed)
				if !c.Thorough() && h%3 != 0 {
					return
				}
				id++
				text := d.files["main.lua"]
				var pos [][2]int
				for li, l := range strings.Split(text, "\n") {
					if strings.HasPrefix(l, "local q") {
						pos = append(pos, [2]int{li, len(l) - 1})
					}
				}
				if h%2 == 0 {
					d.files["luahelper.json"] = `{"ShowWarnFlag":1,"ProjectFiles":["main.lua"]}`
				}
				add("cyclic class hierarchy\n-- types1.lua\n"+d.files["types1.lua"]+"-- types2.lua\n"+d.files["types2.lua"]+"-- types3.lua\n"+d.files["types3.lua"]+"-- main.lua\n"+text,
					append(json.RawMessage{}, j...), c01Session(id, d.files, nil, "main.lua", text, pos))
			})
		if err != nil || st.ExitCode != 0 {
			c.Rep.Fatal(fmt.Sprintf("ClassGraph.tla run failed (exit %d): %v\n%s", st.ExitCode, err, lastLines(st.Out, 12)))
			return
		}
	}
	if len(groups) > 0 {
		p.RunSlice(groups, handle)
		groups = nil
	}
	// ---- TLC decides: anomalous sessions and a sample of normal ones through LivenessTrace.tla ----
	var buf bytes.Buffer
	nl, nt := 0, 0
	c.Rep.Extra["sessions"] = nsessions
	for _, t := range traces {
		if len(t.events) == 0 {
			continue
		}
		nt++
		for _, e := range t.events {
			if _, ok := e["id"]; !ok {
				e["id"] = 0
			}
			if _, ok := e["run"]; !ok {
				e["run"] = t.id
			}
			b, _ := json.Marshal(e)
			buf.Write(b)
			buf.WriteByte('\n')
			nl++
		}
	}
	st, err := c.TLC(tlc.Run{Module: "LivenessTrace", Workers: 1, Timeout: 30 * time.Minute, Files: map[string][]byte{"trace.ndjson": buf.Bytes()},
		Cfg: "CONSTANTS\n  Deadline = 10\n  MaxId = 1\nINIT TraceInit\nNEXT TraceNext\nINVARIANTS Report\nCHECK_DEADLOCK FALSE\n"},
		func(j json.RawMessage) {
			var o struct {
				Run int    `json:"run"`
				Why string `json:"why"`
			}
			if json.Unmarshal(j, &o) != nil {
				return
			}
			t := byID[o.Run]
			if t == nil || t.id < 0 {
				return
			}
			t.id = -t.id // report once
			desc := fmt.Sprintf("the server breaks C01 (%s) on %s", o.Why, t.desc)
			if surveyMode {
				sv.add(o.Why+" "+firstWords(strings.SplitN(t.desc, " — ", 2)[len(strings.SplitN(t.desc, " — ", 2))-1], 12), desc)
				return
			}
			c.Rep.Violation(t.raw, desc)
		})
	if err != nil || st.ExitCode != 0 || st.Depth != nl+1 {
		c.Rep.Fatal(fmt.Sprintf("LivenessTrace.tla did not consume the trace (depth %d, lines %d, exit %d): %v\n%s", st.Depth, nl, st.ExitCode, err, lastLines(st.Out, 10)))
		return
	}
	c.Rep.Traces = int64(nt)
	c.Rep.Extra["trace_lines_validated"] = nl
	c.poolStats(p)
	if surveyMode {
		sv.dump()
	}
	_ = utf8.RuneError
}
