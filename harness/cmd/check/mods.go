package main

import (
	"encoding/json"
	"fmt"
	"os"
	"regexp"
	"sort"
	"strings"
	"time"

	"verifharness/internal/pool"
	"verifharness/internal/proto"
	"verifharness/internal/tlc"
)

// ---- Modules.tla workspaces: tables, members, require/return ----

type modItem struct {
	K     string `json:"k"`
	N     string `json:"n"`
	Scope string `json:"scope"`
	Tid   int    `json:"tid"`
	File  int    `json:"file"`
	X     string `json:"x"`
	St    string `json:"st"`
	M     string `json:"m"`
	HK    string `json:"hk"` // how the table variable got its value: "tab", "mod" (a require), "none"
	H     int    `json:"h"`  // table identity the statement's table variable holds (0 = not statically known)
}

type modCase struct {
	Files [][]modItem `json:"files"`
}

// modRender writes the workspace; the occurrence list has every table variable (roles decl/gdef/use) and every member name
// (roles mdef/muse, B = table identity).
func modRender(tc *modCase, oneLine bool) *scRender {
	r := &scRender{DeclAt: map[int]*occ{}, ItemAt: map[int][2]int{}}
	idx := 0
	for fi, items := range tc.Files {
		r.Files = append(r.Files, scFileName(fi))
		var lines []string
		cur := ""
		emit := func(parts ...interface{}) {
			var sb strings.Builder
			line := len(lines)
			if oneLine {
				line = 0
				sb.WriteString(cur)
				if cur != "" {
					sb.WriteString(" ")
				}
			}
			for _, p := range parts {
				switch v := p.(type) {
				case string:
					sb.WriteString(v)
				case occ:
					v.Item, v.File, v.Line, v.Col = idx, fi, line, sb.Len()
					sb.WriteString(v.Name)
					r.Occ = append(r.Occ, v)
				}
			}
			if oneLine {
				cur = sb.String()
			} else {
				lines = append(lines, sb.String())
			}
			idx++
		}
		tv := func(n string) occ { return occ{Slot: "x", Name: n, Role: "use"} }
		// a file that defines a member through its require'd variable: every member reached through that variable in the
		// file is affected by the known finding (the locally recorded members shadow the module's)
		modDef := map[string]bool{}
		for _, it := range items {
			if it.K == "mdef" && it.HK == "mod" {
				modDef[it.X] = true
			}
		}
		// as-built alternatives of a member reached through variable x (known findings)
		altOf := func(it modItem, def bool) map[string]int {
			if it.HK == "mod" && (def || modDef[it.X]) {
				return map[string]int{"Dev_MemberDefinedThroughRequireUnreferenced": 1}
			}
			if it.X == "L" {
				return map[string]int{"Dev_MemberThroughAliasUnreferenced": 1}
			}
			return nil
		}
		for _, it := range items {
			switch it.K {
			case "deftab":
				if it.Scope == "local" {
					emit("local ", occ{Slot: "n", Name: it.N, Role: "decl", Kind: "local", Decl: it.Tid}, " = {}")
				} else {
					emit(occ{Slot: "n", Name: it.N, Role: "gdef", Kind: "global", Decl: it.Tid}, " = {}")
				}
			case "import":
				emit("local ", occ{Slot: "n", Name: it.N, Role: "decl", Kind: "local"}, fmt.Sprintf(" = require(\"f%d\")", it.File))
			case "alias":
				emit("local ", occ{Slot: "n", Name: it.N, Role: "decl", Kind: "local"}, " = ", tv(it.X))
			case "mdef":
				mo := occ{Slot: "mn", Name: it.M, Role: "mdef", Kind: it.St, B: it.H}
				if it.HK == "mod" {
					// as-built (known finding): a member defined through a variable that holds a require(..) is found
					// by go-to-definition but not by the reference search
					mo.Alt = map[string]int{"Dev_MemberDefinedThroughRequireUnreferenced": 1}
				} else if it.X == "L" {
					// as-built (known finding): the reference search does not follow `local L = X`
					mo.Alt = map[string]int{"Dev_MemberThroughAliasUnreferenced": 1}
				}
				switch it.St {
				case "dot":
					emit("function ", tv(it.X), ".", mo, "(p) return p end")
				case "colon":
					emit("function ", tv(it.X), ":", mo, "(p) return p end")
				case "assignfn":
					emit(tv(it.X), ".", mo, " = function(p) return p end")
				case "field":
					emit(tv(it.X), ".", mo, " = 1")
				case "deep":
					emit("function ", tv(it.X), ".", occ{Slot: "sub", Name: "sub", Role: "mdef", Kind: "sub", B: it.H, Alt: altOf(it, true)}, ".", mo, "(p) return p end")
				case "deepfield":
					emit(tv(it.X), ".", occ{Slot: "sub", Name: "sub", Role: "mdef", Kind: "sub", B: it.H, Alt: altOf(it, true)}, ".", mo, " = 1")
				}
			case "muse":
				mo := occ{Slot: "mn", Name: it.M, Role: "muse", Kind: it.St, B: it.H}
				// (self / selfnest: the enclosing method zz is itself defined through the variable)
				mo.Alt = altOf(it, it.St == "self" || it.St == "selfnest")
				switch it.St {
				case "read":
					emit("print(", tv(it.X), ".", mo, ")")
				case "call":
					emit(tv(it.X), ".", mo, "(1)")
				case "mcall":
					emit(tv(it.X), ":", mo, "(1)")
				case "deepread":
					emit("print(", tv(it.X), ".", occ{Slot: "sub", Name: "sub", Role: "muse", Kind: "sub", B: it.H, Alt: altOf(it, false)}, ".", mo, ")")
				case "self":
					emit("function ", tv(it.X), ":zz(p) return self.", mo, " end")
				case "selfnest":
					emit("function ", tv(it.X), ":zz(p) return function() return self.", mo, " end end")
				}
			case "ret":
				emit("return ", tv(it.X))
			}
		}
		if oneLine {
			lines = []string{cur}
		}
		r.Lines = append(r.Lines, lines)
		r.Text = append(r.Text, strings.Join(lines, "\n")+"\n")
	}
	return r
}

var reTok = regexp.MustCompile(`[A-Za-z_][A-Za-z_0-9]*`)

// modTokens maps "file:line:col" to the identifier token that starts there.
func modTokens(r *scRender) map[string]string {
	m := map[string]string{}
	for fi, f := range r.Files {
		for li, l := range r.Lines[fi] {
			for _, x := range reTok.FindAllStringIndex(l, -1) {
				m[fmt.Sprintf("%s:%d:%d", f, li, x[0])] = l[x[0]:x[1]]
			}
		}
	}
	return m
}

type modData struct {
	tc    *modCase
	r     *scRender
	steps [][5]int // per occurrence: definition, references, highlight, hover, rename
	toks  map[string]string
	syms  []int    // documentSymbol step per file
	late  [][3]int // after another file was edited and closed without saving: (occurrence, references step, rename step)
}

func modOneLine(raw []byte, seed int64) bool { return scModeOf(raw, seed) == 1 }

func modBuild(seed int64) func(id int, raw json.RawMessage) *Job {
	return func(id int, raw json.RawMessage) *Job {
		var tc modCase
		if json.Unmarshal(raw, &tc) != nil || len(tc.Files) == 0 {
			return nil
		}
		r := modRender(&tc, modOneLine(raw, seed))
		pc := &proto.Case{ID: id, Files: r.files(), Init: json.RawMessage(allOnLocal)}
		for i, f := range r.Files {
			pc.Steps = append(pc.Steps, openStep(f, r.Text[i]))
		}
		d := &modData{tc: &tc, r: r, toks: modTokens(r)}
		for _, o := range r.Occ {
			f := r.Files[o.File]
			var st [5]int
			for k, m := range []string{"textDocument/definition", "textDocument/references", "textDocument/documentHighlight", "textDocument/hover", "textDocument/rename"} {
				var p json.RawMessage
				switch k {
				case 1:
					p = refParams(f, o.Line, o.Col)
				case 4:
					p = renameParams(f, o.Line, o.Col, "zq9")
				default:
					p = posParams(f, o.Line, o.Col)
				}
				pc.Steps = append(pc.Steps, proto.Step{M: m, P: p})
				st[k] = len(pc.Steps) - 1
			}
			d.steps = append(d.steps, st)
		}
		for _, f := range r.Files {
			pc.Steps = append(pc.Steps, proto.Step{M: "textDocument/documentSymbol", P: json.RawMessage(fmt.Sprintf(`{"textDocument":{"uri":"file://$ROOT/%s"}}`, f))})
			d.syms = append(d.syms, len(pc.Steps)-1)
		}
		// an edit that is thrown away: the last file with text gets a line typed at its top and is closed without saving;
		// answers asked afterwards from the first file must again refer to the text on disk
		last := -1
		for fi := len(r.Files) - 1; fi >= 1; fi-- {
			if strings.TrimSpace(r.Text[fi]) != "" {
				last = fi
				break
			}
		}
		if last >= 1 {
			lf := r.Files[last]
			pc.Steps = append(pc.Steps, changeStep(lf, 2, 0, 0, 0, 0, "local pad = 0\n"))
			pc.Steps = append(pc.Steps, proto.Step{M: "textDocument/didClose", N: true, P: json.RawMessage(fmt.Sprintf(`{"textDocument":{"uri":"file://$ROOT/%s"}}`, lf))})
			for k, o := range r.Occ {
				if o.File != 0 {
					continue
				}
				f := r.Files[0]
				pc.Steps = append(pc.Steps, proto.Step{M: "textDocument/references", P: refParams(f, o.Line, o.Col)})
				pc.Steps = append(pc.Steps, proto.Step{M: "textDocument/rename", P: renameParams(f, o.Line, o.Col, "zq9")})
				d.late = append(d.late, [3]int{k, len(pc.Steps) - 2, len(pc.Steps) - 1})
			}
		}
		return &Job{PC: pc, Data: d}
	}
}

// modJudgeRanges is the C04 / C11 reading of a Modules.tla workspace: whatever the server answers for a table variable or a
// member name, every range must lie in its document and start and end exactly at an identifier; references, highlights and
// rename edits must each cover an identifier spelled like the one asked about, rename edits must not overlap or repeat, and
// the position asked about is among them.
func modJudgeRanges(c *Ctx, j *Job, res *proto.Result) {
	d := j.Data.(*modData)
	c.Rep.Eval(string(j.Raw))
	if res.Crash != "" || res.Hang {
		c.Rep.Violation(j.Raw, fmt.Sprintf("server died or hung (crash=%q hang=%v at step %d) on workspace:\n%s", res.Crash, res.Hang, res.AtStep, progText(d.r)))
		return
	}
	var prob []string
	tokAt := func(f string, sl, sc, el, ec int) (string, string) {
		t, ok := d.toks[fmt.Sprintf("%s:%d:%d", f, sl, sc)]
		if !ok {
			return "", fmt.Sprintf("%s %d:%d-%d:%d does not start at an identifier of that document", f, sl, sc, el, ec)
		}
		if el != sl || ec != sc+len(t) {
			return t, fmt.Sprintf("%s %d:%d-%d:%d does not end with the identifier %q that starts there", f, sl, sc, el, ec, t)
		}
		return t, ""
	}
	for k := range d.r.Occ {
		o := &d.r.Occ[k]
		st := d.steps[k]
		at := fmt.Sprintf("%s %d:%d (%s)", d.r.Files[o.File], o.Line, o.Col, o.Name)
		dl, _ := projLocs(res.Root, res.Steps[st[0]].Reply)
		for _, l := range dl {
			if _, e := tokAt(l.File, l.SL, l.SC, l.EL, l.EC); e != "" {
				prob = append(prob, "definition at "+at+": range "+e)
			}
		}
		rl, _ := projLocs(res.Root, res.Steps[st[1]].Reply)
		for _, l := range rl {
			t, e := tokAt(l.File, l.SL, l.SC, l.EL, l.EC)
			if e != "" {
				prob = append(prob, "references at "+at+": range "+e)
			} else if t != o.Name && (o.Role == "mdef" || o.Role == "muse") {
				prob = append(prob, fmt.Sprintf("references at %s: %s %d:%d is the identifier %q, not an occurrence of member %q", at, l.File, l.SL, l.SC, t, o.Name))
			}
		}
		for _, h := range hlToPos(d.r.Files[o.File], res.Steps[st[2]].Reply) {
			if t, ok := d.toks[fmt.Sprintf("%s:%d:%d", h.F, h.L, h.C)]; !ok {
				prob = append(prob, fmt.Sprintf("highlight at %s: %d:%d does not start at an identifier", at, h.L, h.C))
			} else if t != o.Name {
				prob = append(prob, fmt.Sprintf("highlight at %s: %d:%d is the identifier %q", at, h.L, h.C, t))
			}
		}
		var we struct {
			Changes map[string][]rawEdit `json:"changes"`
		}
		if rp := res.Steps[st[4]].Reply; len(rp) > 0 && string(rp) != "null" {
			json.Unmarshal(rp, &we)
		}
		seen := map[string]bool{}
		self := false
		n := 0
		for uri, eds := range we.Changes {
			f := strings.TrimPrefix(strings.TrimPrefix(uri, "file://"), res.Root+"/")
			for _, e := range eds {
				n++
				t, er := tokAt(f, e.Range.Start.Line, e.Range.Start.Character, e.Range.End.Line, e.Range.End.Character)
				key := fmt.Sprintf("%s:%d:%d", f, e.Range.Start.Line, e.Range.Start.Character)
				switch {
				case er != "":
					prob = append(prob, "rename at "+at+": edit "+er)
				case t != o.Name:
					prob = append(prob, fmt.Sprintf("rename at %s: edit %s rewrites the identifier %q, which is not spelled %q", at, key, t, o.Name))
				case seen[key]:
					prob = append(prob, fmt.Sprintf("rename at %s: two edits at %s", at, key))
				}
				seen[key] = true
				if f == d.r.Files[o.File] && e.Range.Start.Line == o.Line && e.Range.Start.Character == o.Col {
					self = true
				}
			}
		}
		if n > 0 && !self {
			prob = append(prob, fmt.Sprintf("rename at %s: the edit does not rewrite the occurrence it was asked at", at))
		}
	}
	// outlines: every entry's range lies in its document (line and column) with start <= end
	for fi, st := range d.syms {
		var top []docSym
		if rp := res.Steps[st].Reply; len(rp) > 0 && string(rp) != "null" {
			json.Unmarshal(rp, &top)
		}
		var all []docSym
		flatten(top, &all)
		lines := lspLines(d.r.Text[fi])
		for _, e := range all {
			if _, ok := rangeText(lines, e.Range.Start.Line, e.Range.Start.Character, e.Range.End.Line, e.Range.End.Character); !ok {
				prob = append(prob, fmt.Sprintf("outline of %s: entry %q has range %d:%d-%d:%d outside the document or with start after end", d.r.Files[fi], e.Name,
					e.Range.Start.Line, e.Range.Start.Character, e.Range.End.Line, e.Range.End.Character))
			}
		}
	}
	// after the discarded edit of another file
	for _, lt := range d.late {
		o := &d.r.Occ[lt[0]]
		at := fmt.Sprintf("%s %d:%d (%s), after another file was edited and closed without saving", d.r.Files[o.File], o.Line, o.Col, o.Name)
		rl, _ := projLocs(res.Root, res.Steps[lt[1]].Reply)
		for _, l := range rl {
			if _, e := tokAt(l.File, l.SL, l.SC, l.EL, l.EC); e != "" {
				prob = append(prob, "references at "+at+": range "+e)
			}
		}
		var we struct {
			Changes map[string][]rawEdit `json:"changes"`
		}
		if rp := res.Steps[lt[2]].Reply; len(rp) > 0 && string(rp) != "null" {
			json.Unmarshal(rp, &we)
		}
		for uri, eds := range we.Changes {
			f := strings.TrimPrefix(strings.TrimPrefix(uri, "file://"), res.Root+"/")
			for _, e := range eds {
				t, er := tokAt(f, e.Range.Start.Line, e.Range.Start.Character, e.Range.End.Line, e.Range.End.Character)
				if er != "" {
					prob = append(prob, "rename at "+at+": edit "+er)
				} else if t != o.Name {
					prob = append(prob, fmt.Sprintf("rename at %s: edit %s %d:%d rewrites the identifier %q", at, f, e.Range.Start.Line, e.Range.Start.Character, t))
				}
			}
		}
	}
	if len(prob) == 0 {
		return
	}
	sort.Strings(prob)
	prob = uniq(prob)
	desc := strings.Join(prob, "; ") + "\n" + progText(d.r)
	if surveyMode {
		for _, p := range prob {
			p = regexp.MustCompile(`f[0-9]\.lua|[0-9]+`).ReplaceAllString(p, "N")
			if len(p) > 110 {
				p = p[:110]
			}
			sv.add(p, desc)
		}
		return
	}
	c.Rep.Violation(j.Raw, desc)
}

// modulesRuns is the generation plan of the Modules.tla families: every workspace of two files up to the item bound, and
// simulated larger workspaces over three files.
// modOneGlobal: Modules.tla constant OneGlobal for the current family.
var modOneGlobal = "TRUE"

func modulesRuns(c *Ctx, p *pool.Pool, build func(id int, raw json.RawMessage) *Job, judge func(j *Job, r *proto.Result)) bool {
	items := 3
	if c.Thorough() {
		items = 4
	}
	if v := os.Getenv("VERIF_MOD_ITEMS"); v != "" {
		fmt.Sscan(v, &items)
	}
	cfg := func(nf, mi, mpf, emin int, invs string) string {
		return fmt.Sprintf("CONSTANTS\n  NFiles = %d\n  MaxItems = %d\n  MaxPerFile = %d\n  Members = {\"fa\",\"fb\"}\n  EmitMin = %d\n  OneGlobal = "+modOneGlobal+"\nINIT Init\nNEXT Next\nINVARIANTS %s\nCHECK_DEADLOCK FALSE\n", nf, mi, mpf, emin, invs)
	}
	if !c.streamRun("modules_bfs", tlc.Run{Module: "Modules", Workers: 8, Timeout: 60 * time.Minute,
		Cfg: cfg(2, items, 3, 2, "TypeOK RetLast TabsFresh Emit")}, p, 8, build, judge) {
		return false
	}
	num, depth := 4000, 9
	if c.Thorough() {
		num, depth = 40000, 12
	}
	if !c.streamRun("modules_sim", tlc.Run{Module: "Modules", Workers: 1, Timeout: 60 * time.Minute,
		Simulate: fmt.Sprintf("num=%d", num), Depth: depth + 3, Seed: c.Seed,
		Cfg: cfg(3, depth, 4, depth, "Emit")}, p, 8, build, judge) {
		return false
	}
	return true
}

func init() { registry["MOD"] = checkMOD }

// checkMOD is a development entry (not registered in MANIFEST.json): the range reading of Modules.tla on its own.
func checkMOD(c *Ctx) {
	c.Rep.Rule = "development run of the Modules.tla range judge"
	p := c.NewPool(0)
	modulesRuns(c, p, modBuild(c.Seed), func(j *Job, r *proto.Result) { modJudgeRanges(c, j, r) })
	c.poolStats(p)
	if surveyMode {
		sv.dump()
	}
}
