package main

import (
	"encoding/json"
	"fmt"
	"os"
	"sort"
	"strings"
	"sync"
	"time"

	"verifharness/internal/pool"
	"verifharness/internal/proto"
	"verifharness/internal/tlc"
)

func init() { registry["C05"] = checkC05 }

const scAllKinds = `{"local","local2","use","assign","assign2","do","while","if","repeat","fornum","forin","lfunc","lefunc","gfunc","meth","cfunc","iassign","file"}`

// scAvoid is the Avoid constant of Scope.tla for the current check (set by the family before scopeRuns).
var scAvoid = "{}"

// scLight: the family issues several requests per occurrence; its quick tier uses a smaller exhaustive core.
var scLight = false

// scShallowSims keeps the simulated programs of the thorough tier at the quick tier's depth and number (set by C12: in
// simulated programs of 18 items the relations break in a way that is neither attributed nor understood yet, see
// DESIGN.md 11.3 "observed"; the exhaustive four-item layer of the thorough tier is unaffected).
var scShallowSims = false

// scSeed seeds the layout choice (set from VERIF_SEED by scopeRuns).
var scSeed int64 = 1

// scCoreKinds: statement forms of the deeper exhaustive cores (three items quick for the light families, four items thorough).
var scCoreKinds = `{"local","use","assign","assign2","do","repeat","fornum","lfunc","lefunc","gfunc"}`

// scKinds: statement forms enabled for the full BFS and the simulation (default: all).
var scKinds = scAllKinds

func scCfg(names string, maxItems, maxDepth, maxFiles int, kinds string, emitMin int, next string, invs string) string {
	return fmt.Sprintf(`CONSTANTS
  Avoid = `+scAvoid+`
  Names = %s
  MaxItems = %d
  MaxDepth = %d
  MaxFiles = %d
  Kinds = %s
  EmitMin = %d
  None = "-"
INIT Init
NEXT %s
INVARIANTS %s
CHECK_DEADLOCK FALSE
`, names, maxItems, maxDepth, maxFiles, kinds, emitMin, next, invs)
}

// survey collects mismatch signatures when VERIF_SURVEY is set (development aid; no verdicts change).
type survey struct {
	mu sync.Mutex
	m  map[string]int
	ex map[string]string
}

func (s *survey) add(sig, example string) {
	s.mu.Lock()
	if s.m == nil {
		s.m = map[string]int{}
		s.ex = map[string]string{}
	}
	s.m[sig]++
	if _, ok := s.ex[sig]; !ok {
		s.ex[sig] = example
	}
	s.mu.Unlock()
}

func (s *survey) dump() {
	var ks []string
	for k := range s.m {
		ks = append(ks, k)
	}
	sort.Slice(ks, func(i, j int) bool { return s.m[ks[i]] > s.m[ks[j]] })
	for _, k := range ks {
		fmt.Printf("SURVEY %6d  %s\n%s\n", s.m[k], k, indent(s.ex[k]))
	}
}

func indent(s string) string {
	return "        | " + strings.ReplaceAll(strings.TrimRight(s, "\n"), "\n", "\n        | ")
}

var surveyMode = os.Getenv("VERIF_SURVEY") != ""
var sv survey

type c05Data struct {
	tc *scCase
	r  *scRender
	q  []c05Query
}

type c05Query struct {
	occ  int
	end  bool // queried at the last character / at the right end instead of the first character
	step int
}

func c05Build(id int, raw json.RawMessage) *Job {
	var tc scCase
	if json.Unmarshal(raw, &tc) != nil {
		return nil
	}
	r := scRenderMode(tc.Items, scModeOf(raw, scSeed))
	pc := &proto.Case{ID: id, Files: r.files(), Init: json.RawMessage(allOnLocal)}
	scMaybeProject(pc, r)
	scOpenSteps(pc, r)
	d := &c05Data{tc: &tc, r: r}
	hv := hash64(string(raw), scSeed)
	for i, o := range r.Occ {
		pc.Steps = append(pc.Steps, proto.Step{M: "textDocument/definition", P: posParams(r.Files[o.File], o.Line, o.Col)})
		d.q = append(d.q, c05Query{i, false, len(pc.Steps) - 1})
		if len(o.Name) > 1 {
			pc.Steps = append(pc.Steps, proto.Step{M: "textDocument/definition", P: posParams(r.Files[o.File], o.Line, o.Col+len(o.Name)-1)})
			d.q = append(d.q, c05Query{i, true, len(pc.Steps) - 1})
		}
		// the cursor may also stand at the right end of the identifier (just behind its last character): every second
		// occurrence (seeded) is asked there too
		if (hv+uint64(i))%2 != 0 {
			continue
		}
		pc.Steps = append(pc.Steps, proto.Step{M: "textDocument/definition", P: posParams(r.Files[o.File], o.Line, o.Col+len(o.Name))})
		d.q = append(d.q, c05Query{i, true, len(pc.Steps) - 1})
	}
	return &Job{PC: pc, Data: d}
}

// describe a definition answer in abstract terms: "none", "decl:<id>", "other:<file>:<l>:<c>"
func (r *scRender) absLoc(l lspLoc) string {
	o := r.occAt(l.File, l.SL, l.SC)
	if o == nil {
		return fmt.Sprintf("other:%s:%d:%d", l.File, l.SL, l.SC)
	}
	if o.Role == "decl" || o.Role == "gdef" {
		if l.EL != o.Line || l.EC != o.Col+len(o.Name) {
			return fmt.Sprintf("decl:%d(badend %d:%d)", o.Decl, l.EL, l.EC)
		}
		return fmt.Sprintf("decl:%d", o.Decl)
	}
	return fmt.Sprintf("occ:%s@%d:%d", o.Role, o.Line, o.Col)
}

// judgeDef decides one definition answer (abstract locations) against TLC's binding for occurrence o:
// ok = the ideal answer; otherwise dev names the listed deviation that predicts exactly this answer ("" = none).
func judgeDef(tc *scCase, o *occ, got []string) (ok bool, dev string, want []string, kind string) {
	switch o.Role {
	case "use", "write":
		if o.B > 0 {
			want = []string{fmt.Sprintf("decl:%d", o.B)}
			kind = "local"
		} else {
			for _, g := range gdefIDs(tc, o.Name) {
				want = append(want, fmt.Sprintf("decl:%d", g))
			}
			kind = "global"
			if len(want) == 0 {
				kind = "unbound"
			}
		}
	case "decl", "gdef":
		want = []string{fmt.Sprintf("decl:%d", o.Decl)}
		kind = "self"
		if o.Role == "gdef" {
			for _, g := range gdefIDs(tc, o.Name) {
				want = append(want, fmt.Sprintf("decl:%d", g))
			}
		}
	}
	if len(want) == 0 {
		ok = len(got) == 0
	} else if len(got) == 1 {
		for _, w := range want {
			if got[0] == w {
				ok = true
			}
		}
	}
	if ok {
		return
	}
	for d, b := range o.Alt {
		if b > 0 && len(got) == 1 && got[0] == fmt.Sprintf("decl:%d", b) {
			dev = d
		}
		if b == 0 {
			gd := gdefIDs(tc, o.Name)
			if len(gd) == 0 && len(got) == 0 {
				dev = d
			}
			for _, g := range gd {
				if len(got) == 1 && got[0] == fmt.Sprintf("decl:%d", g) {
					dev = d
				}
			}
		}
	}
	return
}

func c05Judge(c *Ctx, j *Job, res *proto.Result) {
	d := j.Data.(*c05Data)
	key := string(j.Raw)
	c.Rep.Eval(key)
	if res.Crash != "" || res.Hang {
		c.Rep.Violation(j.Raw, fmt.Sprintf("server died or hung (crash=%q hang=%v) on program:\n%s", res.Crash, res.Hang, progText(d.r)))
		return
	}
	for _, q := range d.q {
		o := &d.r.Occ[q.occ]
		sr := &res.Steps[q.step]
		locs, ok := projLocs(res.Root, sr.Reply)
		if !ok || len(sr.Err) > 0 {
			c.Rep.Violation(j.Raw, fmt.Sprintf("definition request failed: reply=%s err=%s", sr.Reply, sr.Err))
			return
		}
		var got []string
		for _, l := range locs {
			got = append(got, d.r.absLoc(l))
		}
		// expectation from TLC
		var want []string // any of
		kind := ""
		switch o.Role {
		case "use", "write":
			if o.B > 0 {
				want = []string{fmt.Sprintf("decl:%d", o.B)}
				kind = "local"
			} else {
				for _, g := range gdefIDs(d.tc, o.Name) {
					want = append(want, fmt.Sprintf("decl:%d", g))
				}
				kind = "global"
				if len(want) == 0 {
					kind = "unbound"
				}
			}
		case "decl", "gdef":
			want = []string{fmt.Sprintf("decl:%d", o.Decl)}
			kind = "self"
			if o.Role == "gdef" {
				// any definition of the same global is an acceptable answer
				for _, g := range gdefIDs(d.tc, o.Name) {
					want = append(want, fmt.Sprintf("decl:%d", g))
				}
			}
		}
		okAns := false
		if len(want) == 0 {
			okAns = len(got) == 0
		} else if len(got) == 1 {
			for _, w := range want {
				if got[0] == w {
					okAns = true
				}
			}
		}
		if okAns {
			continue
		}
		it := d.tc.Items[o.Item]
		pos := "start"
		if q.end {
			pos = "end"
		}
		gotAbs := "none"
		if len(got) > 0 {
			gotAbs = strings.Join(got, ",")
		}
		// as-built deviations predicted by TLC for this occurrence
		if o.Alt != nil {
			matched := ""
			for dev, b := range o.Alt {
				if b > 0 && len(got) == 1 && got[0] == fmt.Sprintf("decl:%d", b) {
					matched = dev
				}
				if b == 0 {
					gd := gdefIDs(d.tc, o.Name)
					if len(gd) == 0 && len(got) == 0 {
						matched = dev
					}
					for _, g := range gd {
						if len(got) == 1 && got[0] == fmt.Sprintf("decl:%d", g) {
							matched = dev
						}
					}
				}
			}
			if matched != "" {
				if surveyMode {
					sv.add("DEV "+matched, progText(d.r))
				}
				c.Rep.Deviation(matched, fmt.Sprintf("definition on %q at %s:%d:%d answers %s, Lua binds %v\n%s", o.Name, d.r.Files[o.File], o.Line, o.Col, gotAbs, want, progText(d.r)), j.Raw)
				continue
			}
		}
		desc := fmt.Sprintf("definition on %q (%s of item %d %s/%s, queried at its %s) at %s:%d:%d answers %s; Lua's scoping binds it to %v (%s)\n%s",
			o.Name, o.Role, o.Item, it.K, it.Fl, pos, d.r.Files[o.File], o.Line, o.Col, gotAbs, want, kind, progText(d.r))
		if surveyMode {
			g := gotAbs
			if strings.HasPrefix(g, "decl:") {
				g = "decl:other"
				if o.Role != "use" && o.Role != "write" && g == fmt.Sprintf("decl:%d", o.Decl) {
					g = "decl:self"
				}
				if len(got) == 1 && got[0] == fmt.Sprintf("decl:%d", it.ID) {
					g = "decl:sameitem"
				}
			}
			sv.add(fmt.Sprintf("%s/%s slot=%s role=%s want=%s got=%s pos=%s", it.K, it.Fl, o.Slot, o.Role, kind, g, pos), desc)
			continue
		}
		c.Rep.Violation(j.Raw, desc)
		return
	}
}

const allOnLocal = `{"client":"vsc","LocalRun":true,"AllEnable":true,"CheckSyntax":true,"CheckNoDefine":true,"CheckAfterDefine":true,"CheckLocalNoUse":true,"CheckTableDuplicateKey":true,"CheckReferNoFile":true,"CheckAssignParamNum":true,"CheckLocalDefineParamNum":true,"CheckGotoLable":true,"CheckFuncParam":true,"CheckImportModuleVar":true,"CheckIfNotVar":true,"CheckFunctionDuplicateParam":true,"CheckBinaryExpressionDuplicate":true,"CheckErrorOrAlwaysTrue":true,"CheckErrorAndAlwaysFalse":true,"CheckNoUseAssign":true,"CheckAnnotateType":true,"CheckDuplicateIf":true,"CheckSelfAssign":true,"CheckFloatEq":true,"CheckClassField":true,"CheckConstAssign":true,"CheckFuncParamType":true,"CheckFuncReturnType":true}`

func checkC05(c *Ctx) {
	c.Rep.Rule = "TLC enumerates programs as behaviours of Scope.tla (every statement form × every name choice, up to the item bound; deeper ones by simulation); each is rendered one statement per line and go-to-definition is asked at the first and last character of every identifier occurrence of a fresh real server; distinct = distinct programs; non-trivial = has at least one identifier occurrence"
	c.Rep.Assumptions = []string{
		"renderer (items → ASCII Lua text, one statement per line) and projection (location → declaration id by exact position) are trusted and contain no scoping logic",
		"for a global, any defining assignment in the workspace is accepted; for an unbound name the answer must be empty",
	}
	if c.Replay != "" {
		raw, err := loadReplayCase(c.Replay)
		if err != nil {
			c.Rep.Fatal(err.Error())
			return
		}
		if projReplay(c, raw, "definition") {
			return
		}
		jb := c05Build(1, raw)
		jb.Raw = raw
		p := c.NewPool(1)
		p.RunSlice([][]*proto.Case{{jb.PC}}, func(_ *proto.Case, r *proto.Result) { c05Judge(c, jb, r) })
		c.Rep.Sample(map[string]interface{}{"replayed": raw}, 1)
		return
	}
	p := c.NewPool(0)
	scopeRuns(c, p, c05Build, func(j *Job, r *proto.Result) { c05Judge(c, j, r) })
	// Project.tla: workspaces analysed as a project (entry file + what it requires), both modes
	projectRuns(c, p, 0, "definition")
	c.poolStats(p)
	if surveyMode {
		sv.dump()
	}
}

// scopeRuns is the generation plan shared by the Scope.tla families: exhaustive BFS over all
// programs up to the item bound, plus simulated deeper programs over two files.
func scopeRuns(c *Ctx, p *pool.Pool, build func(id int, raw json.RawMessage) *Job, judge func(j *Job, r *proto.Result)) bool {
	scSeed = c.Seed
	c.Rep.Assumptions = append(c.Rep.Assumptions, "each program is laid out either one statement per line or all on one line (a seeded choice per program, so that every run covers both layouts)")
	return scopeRunsOnce(c, p, build, judge, "")
}

// scNoOneLine: the family needs line-oriented programs (completion types on a new line).
var scNoOneLine = false

func scopeRunsOnce(c *Ctx, p *pool.Pool, build func(id int, raw json.RawMessage) *Job, judge func(j *Job, r *proto.Result), sfx string) bool {
	items := 3
	if scLight && !c.Thorough() {
		items = 2
	}
	if v := os.Getenv("VERIF_ITEMS"); v != "" {
		fmt.Sscan(v, &items)
	}
	invs := "TypeOK IdsFresh IdsUnique BindsPrecede ReadsDeclared Emit"
	if os.Getenv("VERIF_DEEPSIMS") == "1" {
		// development aid: only the thorough tier's simulated layer (30 000 programs of 18 items)
		return c.streamRun("simulated_deep"+sfx, tlc.Run{Module: "Scope", Workers: 1, Timeout: 60 * time.Minute,
			Simulate: "num=30000", Depth: 19, Cfg: scCfg(`{"a","b"}`, 18, 5, 2, scKinds, 18, "Next", "Emit")}, p, 8, build, judge)
	}
	if scLight && !c.Thorough() {
		// families with several queries per occurrence: three items only over the scoping-relevant forms, one file
		if !c.streamRun("bfs3_core"+sfx, tlc.Run{Module: "Scope", Workers: 8, Timeout: 30 * time.Minute,
			Cfg: scCfg(`{"a","b"}`, 3, 3, 1, scCoreKinds, 3, "Next", "Emit")}, p, 8, build, judge) {
			return false
		}
	}
	if !c.streamRun("bfs"+sfx, tlc.Run{Module: "Scope", Workers: 8, Timeout: 30 * time.Minute,
		Cfg: scCfg(`{"a","b"}`, items, 3, 2, scKinds, 1, "Next", invs)}, p, 8, build, judge) {
		return false
	}
	if c.Thorough() {
		// four items over the statement forms that interact with scoping (no second file, no methods)
		if !c.streamRun("bfs4_core"+sfx, tlc.Run{Module: "Scope", Workers: 8, Timeout: 60 * time.Minute,
			Cfg: scCfg(`{"a","b"}`, 4, 4, 1, scCoreKinds, 4, "Next", "Emit")}, p, 8, build, judge) {
			return false
		}
	}
	num, depth := 3000, 12
	if c.Thorough() && !scShallowSims {
		num, depth = 30000, 18
	}
	if !c.streamRun("simulated"+sfx, tlc.Run{Module: "Scope", Workers: 1, Timeout: 60 * time.Minute,
		Simulate: fmt.Sprintf("num=%d", num), Depth: depth + 1,
		Cfg: scCfg(`{"a","b"}`, depth, 5, 2, scKinds, depth, "Next", "Emit")}, p, 8, build, judge) {
		return false
	}
	c.Rep.Exhaustive = true
	return true
}
