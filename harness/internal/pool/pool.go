// Package pool runs cases on a pool of lspdriver child processes.
package pool

import (
	"bufio"
	"bytes"
	"encoding/json"
	"fmt"
	"io"
	"os"
	"os/exec"
	"strings"
	"sync"
	"time"

	"verifharness/internal/proto"
)

// Pool is a set of child drivers.
type Pool struct {
	Bin     string
	N       int
	Budget  time.Duration // max silence of a child while a case is in flight
	BaseDir string
	Env     []string
	// statistics
	Mu       sync.Mutex
	Cases    int
	Crashes  int
	Hangs    int
	Retried  int // cases repeated after a first silence
	Restarts int
	MaxMs    float64
}

type item struct {
	c *proto.Case
	r *proto.Result
}

type child struct {
	cmd    *exec.Cmd
	in     io.WriteCloser
	lines  chan []byte
	stderr *tailBuf
	dead   chan struct{}
}

type tailBuf struct {
	mu sync.Mutex
	b  []byte
}

func (t *tailBuf) Write(p []byte) (int, error) {
	t.mu.Lock()
	t.b = append(t.b, p...)
	if len(t.b) > 1<<16 {
		// keep head (panic message is first) and tail
		h := append([]byte{}, t.b[:1<<14]...)
		t.b = append(h, t.b[len(t.b)-(1<<14):]...)
	}
	t.mu.Unlock()
	return len(p), nil
}

func (t *tailBuf) String() string {
	t.mu.Lock()
	defer t.mu.Unlock()
	return string(t.b)
}

func (p *Pool) spawn(i int) (*child, error) {
	cmd := exec.Command(p.Bin, "-base", fmt.Sprintf("%s/c%d", p.BaseDir, i))
	cmd.Env = append(os.Environ(), p.Env...)
	in, err := cmd.StdinPipe()
	if err != nil {
		return nil, err
	}
	outp, err := cmd.StdoutPipe()
	if err != nil {
		return nil, err
	}
	ch := &child{cmd: cmd, in: in, lines: make(chan []byte, 256), stderr: &tailBuf{}, dead: make(chan struct{})}
	cmd.Stderr = ch.stderr
	if err := cmd.Start(); err != nil {
		return nil, err
	}
	go func() {
		rd := bufio.NewReaderSize(outp, 1<<20)
		for {
			b, err := rd.ReadBytes('\n')
			if len(b) > 0 {
				ch.lines <- b
			}
			if err != nil {
				break
			}
		}
		cmd.Wait()
		close(ch.dead)
		close(ch.lines)
	}()
	return ch, nil
}

func (ch *child) kill() {
	ch.cmd.Process.Kill()
	for range ch.lines {
	}
}

// Run feeds groups of cases (a group goes to one child, in order) and calls handle serially.
func (p *Pool) Run(groups <-chan []*proto.Case, handle func(c *proto.Case, r *proto.Result)) error {
	if p.Budget == 0 {
		p.Budget = 10 * time.Second
	}
	os.MkdirAll(p.BaseDir, 0o755)
	results := make(chan item, 1024)
	var wg sync.WaitGroup
	errs := make(chan error, p.N)
	for w := 0; w < p.N; w++ {
		wg.Add(1)
		go func(w int) {
			defer wg.Done()
			var ch *child
			defer func() {
				if ch != nil {
					ch.in.Close()
					select {
					case <-ch.dead:
					case <-time.After(2 * time.Second):
						ch.kill()
					}
				}
				os.RemoveAll(fmt.Sprintf("%s/c%d", p.BaseDir, w))
			}()
			for g := range groups {
				for _, c := range g {
					if ch == nil {
						var err error
						ch, err = p.spawn(w)
						if err != nil {
							errs <- err
							return
						}
					}
					r := p.runOne(ch, c)
					if r.Hang {
						// silence can come from the machine being busy: the case is repeated once on a fresh child with
						// three times the budget, and only a second silence counts as a hang
						ch.kill()
						os.RemoveAll(fmt.Sprintf("%s/c%d", p.BaseDir, w))
						var err error
						ch, err = p.spawn(w)
						if err != nil {
							errs <- err
							return
						}
						p.Mu.Lock()
						p.Restarts++
						p.Retried++
						p.Mu.Unlock()
						r = p.runOneB(ch, c, 3*p.Budget)
					}
					if r.Crash != "" || r.Hang {
						ch.kill()
						ch = nil
						os.RemoveAll(fmt.Sprintf("%s/c%d", p.BaseDir, w))
						p.Mu.Lock()
						p.Restarts++
						p.Mu.Unlock()
					}
					results <- item{c, r}
				}
			}
		}(w)
	}
	go func() { wg.Wait(); close(results) }()
	for it := range results {
		p.Mu.Lock()
		p.Cases++
		if it.r.Crash != "" {
			p.Crashes++
		}
		if it.r.Hang {
			p.Hangs++
		}
		p.Mu.Unlock()
		handle(it.c, it.r)
	}
	select {
	case e := <-errs:
		return e
	default:
	}
	return nil
}

// RunSlice is Run over a slice of groups.
func (p *Pool) RunSlice(groups [][]*proto.Case, handle func(c *proto.Case, r *proto.Result)) error {
	ch := make(chan []*proto.Case, 64)
	go func() {
		for _, g := range groups {
			ch <- g
		}
		close(ch)
	}()
	return p.Run(ch, handle)
}

func (p *Pool) runOne(ch *child, c *proto.Case) *proto.Result { return p.runOneB(ch, c, p.Budget) }

// runOneB runs a case with the given silence budget.
func (p *Pool) runOneB(ch *child, c *proto.Case, budget time.Duration) *proto.Result {
	r := &proto.Result{ID: c.ID, Steps: make([]proto.StepResult, len(c.Steps)), AtStep: -1}
	b, _ := json.Marshal(c)
	b = append(b, '\n')
	if _, err := ch.in.Write(b); err != nil {
		<-ch.dead
		r.Crash = "write failed: " + err.Error() + "\n" + ch.stderr.String()
		return r
	}
	timer := time.NewTimer(budget)
	defer timer.Stop()
	for {
		select {
		case lb, ok := <-ch.lines:
			if !ok {
				r.Crash = crashSummary(ch.stderr.String())
				return r
			}
			if !timer.Stop() {
				select {
				case <-timer.C:
				default:
				}
			}
			timer.Reset(budget)
			var l proto.Line
			if err := json.Unmarshal(bytes.TrimSpace(lb), &l); err != nil {
				continue
			}
			if l.ID != c.ID {
				continue
			}
			switch l.Kind {
			case "ready":
				r.Root = l.Root
			case "done":
				r.Done = true
				return r
			case "hook":
				r.Hooks = append(r.Hooks, l.Data)
			case "parse":
				r.Parse = l.Data
			case "ntf":
				if l.Step < 0 {
					r.InitNtfs = append(r.InitNtfs, proto.Ntf{Method: l.Method, Params: l.Data})
				} else if l.Step < len(r.Steps) {
					r.Steps[l.Step].Ntfs = append(r.Steps[l.Step].Ntfs, proto.Ntf{Method: l.Method, Params: l.Data})
				}
			case "reply", "err", "peek":
				if l.Step >= 0 && l.Step < len(r.Steps) {
					s := &r.Steps[l.Step]
					s.Got = true
					s.Ms = l.Ms
					if l.Ms > 0 {
						p.Mu.Lock()
						if l.Ms > p.MaxMs {
							p.MaxMs = l.Ms
						}
						p.Mu.Unlock()
					}
					switch l.Kind {
					case "reply":
						s.Reply = l.Data
					case "err":
						s.Err = l.Data
					case "peek":
						s.Peek = l.Data
					}
					r.AtStep = l.Step
				}
			}
		case <-timer.C:
			r.Hang = true
			return r
		}
	}
}

func crashSummary(stderr string) string {
	if stderr == "" {
		return "child exited without message"
	}
	lines := strings.Split(stderr, "\n")
	var keep []string
	for _, l := range lines {
		if strings.HasPrefix(l, "panic:") || strings.HasPrefix(l, "fatal error:") || strings.HasPrefix(l, "runtime:") || strings.Contains(l, "goroutine stack exceeds") {
			keep = append(keep, l)
		}
	}
	// first few frames mentioning luahelper
	n := 0
	for _, l := range lines {
		if strings.Contains(l, "luahelper-lsp/") && !strings.HasPrefix(l, "\t") {
			keep = append(keep, strings.TrimSpace(l))
			n++
			if n >= 6 {
				break
			}
		}
	}
	if len(keep) == 0 {
		if len(stderr) > 600 {
			stderr = stderr[:600]
		}
		return stderr
	}
	return strings.Join(keep, " | ")
}
