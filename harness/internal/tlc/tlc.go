// Package tlc runs TLC in a scratch copy of /verif/specs and streams its @@J lines.
package tlc

import (
	"bufio"
	"encoding/json"
	"fmt"
	"io"
	"os"
	"os/exec"
	"path/filepath"
	"regexp"
	"strconv"
	"strings"
	"time"
)

// Run describes one TLC invocation.
type Run struct {
	SpecDir  string // directory holding the .tla files (copied)
	Module   string // module name (file Module.tla)
	Cfg      string // cfg text
	Workers  int
	Simulate string // e.g. "num=1000" ; empty => BFS
	Depth    int
	Seed     int64
	Timeout  time.Duration
	Extra    []string
	Files    map[string][]byte // extra files to drop in the scratch dir (e.g. trace.ndjson)
	JavaOpts string
	Coverage bool
	KeepOut  bool // keep full stdout (small runs only)
}

// Stats are TLC's own counters.
type Stats struct {
	Generated int64
	Distinct  int64
	Depth     int
	WallS     float64
	JLines    int64
	Out       string // tail (or all, if KeepOut) of the output without @@J lines
	Violation bool   // TLC reported an invariant/property violation or error
	ExitCode  int
	Cmd       string
	ZeroCov   []string
}

var reStates = regexp.MustCompile(`(\d+) states generated, (\d+) distinct states found`)
var reDepth = regexp.MustCompile(`depth of the complete state graph search is (\d+)`)
var reSim = regexp.MustCompile(`(\d+) states checked`)

// Exec runs TLC and calls onJ for each @@J line (already unquoted JSON).
func Exec(r Run, onJ func(j json.RawMessage)) (Stats, error) {
	var st Stats
	scratch, err := os.MkdirTemp("", "veriftlc")
	if err != nil {
		return st, err
	}
	defer os.RemoveAll(scratch)
	ents, err := os.ReadDir(r.SpecDir)
	if err != nil {
		return st, err
	}
	for _, e := range ents {
		if strings.HasSuffix(e.Name(), ".tla") {
			b, _ := os.ReadFile(filepath.Join(r.SpecDir, e.Name()))
			os.WriteFile(filepath.Join(scratch, e.Name()), b, 0o644)
		}
	}
	for n, b := range r.Files {
		os.WriteFile(filepath.Join(scratch, n), b, 0o644)
	}
	cfgName := r.Module + "_run.cfg"
	os.WriteFile(filepath.Join(scratch, cfgName), []byte(r.Cfg), 0o644)
	if r.Workers == 0 {
		r.Workers = 8
	}
	if r.Timeout == 0 {
		r.Timeout = 10 * time.Minute
	}
	args := []string{fmt.Sprintf("%d", int(r.Timeout.Seconds())), "tlc", "-workers", strconv.Itoa(r.Workers),
		"-metadir", filepath.Join(scratch, "meta"), "-config", cfgName, "-nowarning"}
	if r.Simulate != "" {
		args = append(args, "-simulate", r.Simulate)
		if r.Depth > 0 {
			args = append(args, "-depth", strconv.Itoa(r.Depth))
		}
		args = append(args, "-seed", strconv.FormatInt(r.Seed, 10))
	}
	if r.Coverage {
		args = append(args, "-coverage", "1")
	}
	args = append(args, r.Extra...)
	args = append(args, r.Module+".tla")
	cmd := exec.Command("timeout", args...)
	cmd.Dir = scratch
	jopts := "-Xss256m -Djava.io.tmpdir=" + scratch // (TLC leaves a tlc-NNN directory in the JVM temp dir: keep it inside the scratch directory, which is removed)
	if r.JavaOpts != "" {
		jopts += " " + r.JavaOpts
	}
	cmd.Env = append(os.Environ(), "JAVA_TOOL_OPTIONS="+jopts)
	st.Cmd = "timeout " + strings.Join(args, " ")
	outp, err := cmd.StdoutPipe()
	if err != nil {
		return st, err
	}
	cmd.Stderr = cmd.Stdout
	t0 := time.Now()
	if err := cmd.Start(); err != nil {
		return st, err
	}
	rd := bufio.NewReaderSize(outp, 1<<20)
	var tail []string
	for {
		line, err := rd.ReadString('\n')
		if len(line) > 0 {
			s := strings.TrimRight(line, "\r\n")
			if strings.HasPrefix(s, `"@@J `) {
				uq, e := strconv.Unquote(s)
				if e == nil {
					st.JLines++
					if onJ != nil {
						onJ(json.RawMessage(uq[4:]))
					}
				}
			} else {
				if m := reStates.FindStringSubmatch(s); m != nil {
					st.Generated, _ = strconv.ParseInt(m[1], 10, 64)
					st.Distinct, _ = strconv.ParseInt(m[2], 10, 64)
				}
				if m := reDepth.FindStringSubmatch(s); m != nil {
					st.Depth, _ = strconv.Atoi(m[1])
				}
				if strings.Contains(s, "is violated") || strings.HasPrefix(s, "Error:") {
					st.Violation = true
				}
				if r.Coverage && strings.HasSuffix(s, ": 0") && strings.HasPrefix(s, "<") {
					st.ZeroCov = append(st.ZeroCov, s)
				}
				tail = append(tail, s)
				if !r.KeepOut && len(tail) > 400 {
					tail = tail[200:]
				}
			}
		}
		if err != nil {
			if err != io.EOF {
				break
			}
			break
		}
	}
	werr := cmd.Wait()
	st.WallS = time.Since(t0).Seconds()
	st.Out = strings.Join(tail, "\n")
	if werr != nil {
		if ee, ok := werr.(*exec.ExitError); ok {
			st.ExitCode = ee.ExitCode()
		} else {
			return st, werr
		}
	}
	if r.Simulate != "" && st.Generated == 0 {
		if m := reSim.FindStringSubmatch(st.Out); m != nil {
			st.Generated, _ = strconv.ParseInt(m[1], 10, 64)
			st.Distinct = st.Generated
		}
	}
	return st, nil
}
