// Package evid collects verdicts, known-finding attribution and evidence for one check run.
package evid

import (
	"crypto/sha1"
	"encoding/hex"
	"encoding/json"
	"fmt"
	"os"
	"path/filepath"
	"sort"
	"strings"
	"sync"
	"time"

	"verifharness/internal/tlc"
)

// Finding is one entry of known_findings.json.
type Finding struct {
	Property  string   `json:"property"`
	Dev       string   `json:"dev"`
	Spec      string   `json:"spec,omitempty"`
	WhatFails string   `json:"what_fails"`
	Example   string   `json:"example,omitempty"`
	Anchors   []string `json:"anchors,omitempty"`
	Status    string   `json:"status"` // "known" or "fixed: property=<id> <commit> <what failed>"
}

// Report accumulates one run.
type Report struct {
	mu          sync.Mutex
	Prop        string
	Tier        string
	Seed        int64
	Root        string // /verif
	t0          time.Time
	States      int64
	Transitions int64
	Traces      int64
	Evals       int64
	distinct    map[[8]byte]struct{}
	Samples     []interface{}
	Extra       map[string]interface{}
	Assumptions []string
	Rule        string
	Exhaustive  bool
	nviol       int
	violPaths   []string
	devSeen     map[string]int
	devEx       map[string]string
	Inconcl     []string
	findings    map[string]Finding
	TLCCmds     []string
	fatal       string
}

// New creates a report and loads known findings.
func New(root, prop, tier string, seed int64) *Report {
	r := &Report{Prop: prop, Tier: tier, Seed: seed, Root: root, t0: time.Now(),
		distinct: map[[8]byte]struct{}{}, Extra: map[string]interface{}{}, devSeen: map[string]int{}, devEx: map[string]string{},
		findings: map[string]Finding{}}
	b, err := os.ReadFile(filepath.Join(root, "known_findings.json"))
	if err == nil {
		var fs []Finding
		if json.Unmarshal(b, &fs) == nil {
			for _, f := range fs {
				if f.Property == prop {
					r.findings[f.Dev] = f
				}
			}
		}
	}
	return r
}

// AddTLC adds TLC's counters.
func (r *Report) AddTLC(s tlc.Stats) {
	r.mu.Lock()
	r.States += s.Distinct
	r.Transitions += s.Generated
	r.TLCCmds = append(r.TLCCmds, s.Cmd)
	r.mu.Unlock()
}

// Eval counts one evaluated case; key identifies distinct non-trivial cases ("" = trivial).
func (r *Report) Eval(key string) {
	r.mu.Lock()
	r.Evals++
	if key != "" {
		h := sha1.Sum([]byte(key))
		var k [8]byte
		copy(k[:], h[:8])
		r.distinct[k] = struct{}{}
	}
	r.mu.Unlock()
}

// Sample records up to n sample cases.
func (r *Report) Sample(v interface{}, max int) {
	r.mu.Lock()
	if len(r.Samples) < max {
		r.Samples = append(r.Samples, v)
	}
	r.mu.Unlock()
}

// Inconclusive records a tooling problem that is not a verdict.
func (r *Report) Inconclusive(s string) {
	r.mu.Lock()
	if len(r.Inconcl) < 50 {
		r.Inconcl = append(r.Inconcl, s)
	}
	r.mu.Unlock()
}

// Fatal marks the run as unable to decide (exit 2).
func (r *Report) Fatal(s string) {
	r.mu.Lock()
	r.fatal = s
	r.mu.Unlock()
}

// Deviation records an observation that the ideal spec rejects but the named as-built deviation
// predicts exactly. If the deviation is not listed as "known", it is a violation.
func (r *Report) Deviation(dev string, example string, replay interface{}) {
	r.mu.Lock()
	f, ok := r.findings[dev]
	r.mu.Unlock()
	if !ok || !strings.HasPrefix(f.Status, "known") {
		r.Violation(replay, "observation matches deviation "+dev+" which is not a listed known finding: "+example)
		return
	}
	r.mu.Lock()
	r.devSeen[dev]++
	if _, ok := r.devEx[dev]; !ok {
		r.devEx[dev] = example
	}
	r.mu.Unlock()
}

// Violation records a violation and writes its replay file.
func (r *Report) Violation(replay interface{}, what string) {
	r.mu.Lock()
	defer r.mu.Unlock()
	r.nviol++
	if len(r.violPaths) >= 25 {
		return
	}
	obj := map[string]interface{}{"property": r.Prop, "what": what, "seed": r.Seed, "tier": r.Tier, "case": replay}
	b, _ := json.MarshalIndent(obj, "", " ")
	h := sha1.Sum(b)
	dir := filepath.Join(r.Root, "replays", r.Prop)
	os.MkdirAll(dir, 0o755)
	p := filepath.Join(dir, hex.EncodeToString(h[:6])+".json")
	os.WriteFile(p, b, 0o644)
	r.violPaths = append(r.violPaths, p)
	fmt.Printf("VIOLATION property=%s replay=%s\n", r.Prop, p)
	if len(r.violPaths) <= 5 {
		fmt.Printf("  what: %s\n", trunc(strings.ReplaceAll(what, "\n", " ⏎ "), 400))
	}
}

func trunc(s string, n int) string {
	if len(s) > n {
		return s[:n] + "..."
	}
	return s
}

// NViol returns the number of violations so far.
func (r *Report) NViol() int {
	r.mu.Lock()
	defer r.mu.Unlock()
	return r.nviol
}

// Finish writes the evidence file, prints KNOWN-FINDING lines and returns the exit code.
func (r *Report) Finish() int {
	r.mu.Lock()
	defer r.mu.Unlock()
	devs := []string{}
	for d := range r.devSeen {
		devs = append(devs, d)
	}
	sort.Strings(devs)
	for _, d := range devs {
		f := r.findings[d]
		fmt.Printf("KNOWN-FINDING: property=%s %s: %s (seen %d times, e.g. %s)\n", r.Prop, d, f.WhatFails, r.devSeen[d], trunc(strings.ReplaceAll(r.devEx[d], "\n", " ⏎ "), 240))
	}
	cov := map[string]interface{}{
		"states":                        r.States,
		"transitions":                   r.Transitions,
		"traces_validated_against_impl": r.Traces,
		"evaluations":                   r.Evals,
		"distinct_nontrivial":           len(r.distinct),
		"rule":                          r.Rule,
		"samples":                       r.Samples,
		"exhaustive":                    r.Exhaustive,
		"deviations_seen":               r.devSeen,
		"inconclusive":                  r.Inconcl,
		"tlc_cmds":                      r.TLCCmds,
	}
	for k, v := range r.Extra {
		cov[k] = v
	}
	if len(r.Samples) == 0 {
		cov["samples"] = []interface{}{"(no case reached the implementation)"}
	}
	ev := map[string]interface{}{
		"property_id": r.Prop,
		"tier":        r.Tier,
		"seed":        r.Seed,
		"level":       "model_checking",
		"coverage":    cov,
		"assumptions": r.Assumptions,
		"wall_s":      time.Since(r.t0).Seconds(),
		"violations":  r.nviol,
	}
	if r.fatal != "" {
		ev["fatal"] = r.fatal
	}
	b, _ := json.MarshalIndent(ev, "", " ")
	os.MkdirAll(filepath.Join(r.Root, "evidence"), 0o755)
	os.WriteFile(filepath.Join(r.Root, "evidence", r.Prop+".json"), b, 0o644)
	fmt.Printf("%s %s: states=%d transitions=%d impl_cases=%d distinct=%d traces=%d violations=%d wall=%.1fs\n",
		r.Prop, r.Tier, r.States, r.Transitions, r.Evals, len(r.distinct), r.Traces, r.nviol, time.Since(r.t0).Seconds())
	if r.nviol > 0 {
		return 1
	}
	if r.fatal != "" {
		fmt.Printf("INCONCLUSIVE property=%s %s\n", r.Prop, r.fatal)
		return 2
	}
	return 0
}
