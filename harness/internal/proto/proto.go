// Package proto defines the JSON-lines protocol between the orchestrator and lspdriver.
package proto

import "encoding/json"

// Case is one unit of work for the child: a workspace, a server session and its steps.
type Case struct {
	Op   string `json:"op,omitempty"` // "" = lsp case, "parse" = parser fast path, "annot" = annotation fast path
	ID   int    `json:"id"`
	Keep bool   `json:"keep,omitempty"` // reuse the server/workspace of the previous case (no re-init)
	// workspace
	Files    map[string]string `json:"files,omitempty"`    // rel path -> utf-8 text
	FilesB64 map[string]string `json:"filesB64,omitempty"` // rel path -> base64 bytes
	// initialization
	Init      json.RawMessage `json:"init,omitempty"`      // initializationOptions; nil => all checks enabled
	Folders   []string        `json:"folders,omitempty"`   // extra workspace folders (rel paths)
	NoPriming bool            `json:"noPriming,omitempty"` // do not send the priming didChangeConfiguration
	Steps     []Step          `json:"steps,omitempty"`
	// fast paths
	Texts    []string `json:"texts,omitempty"`
	TextsB64 []string `json:"textsB64,omitempty"`
}

// Step is one message (or pseudo-operation) of a case.
type Step struct {
	M      string          `json:"m"`           // LSP method, or "fs.write", "fs.delete", "peek", "diagkeys"
	P      json.RawMessage `json:"p,omitempty"` // params; "$ROOT" is replaced by the workspace root
	N      bool            `json:"n,omitempty"` // notification
	NoWait bool            `json:"nowait,omitempty"`
	Path   string          `json:"path,omitempty"` // fs ops / peek: rel path
	Text   string          `json:"text,omitempty"`
	B64    string          `json:"b64,omitempty"`
}

// Line is one line of child output.
type Line struct {
	ID     int             `json:"id"`
	Step   int             `json:"step"`
	Kind   string          `json:"k"` // "reply","err","ntf","hook","peek","done","ready","parse","annot","late"
	Method string          `json:"m,omitempty"`
	Data   json.RawMessage `json:"d,omitempty"`
	Ms     float64         `json:"ms,omitempty"`
	Root   string          `json:"root,omitempty"`
	ReqID  int             `json:"rid,omitempty"`
}

// StepResult is what the orchestrator assembles per step.
type StepResult struct {
	Reply json.RawMessage   // result or nil
	Err   json.RawMessage   // error object or nil
	Ntfs  []Ntf             // server->client notifications observed during the step, in wire order
	Peek  json.RawMessage   // for pseudo steps
	Ms    float64
	Got   bool
}

// Ntf is a server-to-client notification.
type Ntf struct {
	Method string
	Params json.RawMessage
}

// Result is the orchestrator-side outcome of a case.
type Result struct {
	ID     int
	Root   string
	Steps  []StepResult
	Hooks  []json.RawMessage
	InitNtfs []Ntf // notifications during start-up (initialize/initialized/priming)
	Parse  json.RawMessage
	Crash  string // non-empty: child died (stderr tail)
	Hang   bool   // watchdog fired
	AtStep int    // step in flight when crash/hang happened
	Done   bool
}
