----------------------------- MODULE LuaGrammar -----------------------------
(***************************************************************************)
(* C03: the reference grammar of the supported language (Lua 5.3/5.4       *)
(* statements and expressions at the level of token kinds) as an explicit  *)
(* stack machine.  The state is the sequence of tokens emitted so far and  *)
(* the stack of grammar symbols still to be derived; a step either expands *)
(* the non-terminal on top of the stack by one of its productions or emits *)
(* the terminal on top.  A behaviour that empties the stack has emitted a  *)
(* chunk that is valid by construction; TLC's breadth-first search to      *)
(* MaxTok tokens enumerates the language up to that length, and that       *)
(* enumerated set is also the reference recogniser for the mutants the     *)
(* harness derives from it (a token sequence of length <= MaxTok is valid   *)
(* iff it was enumerated).                                                 *)
(*                                                                         *)
(* Left out on purpose (context conditions, not grammar -- UNSPECIFIED):    *)
(* break outside loops, '...' outside vararg functions, undefined or       *)
(* duplicate labels, assignment to <const> variables.                      *)
(***************************************************************************)
EXTENDS Integers, Sequences, FiniteSets, TLC, Json

CONSTANTS MaxTok,     \* tokens per chunk
          MaxStack,   \* bound on pending grammar symbols
          Focus,      \* "chunk": derive whole chunks; otherwise a frame around one list non-terminal, to enumerate that list
                      \* far deeper than whole chunks allow: "params" function name ( ParList ) end, "forin" for name NameList2
                      \* in name do end, "attnames" local AttNames ;, "funcname" function FuncName ( ) end
          DevParen    \* TRUE: as-built language (known finding Dev_ParenVarAssignable): an expression that is not an
                      \* l-value (a parenthesised expression, a call) is accepted as the target of an assignment

NT == {"Block", "Stats", "Ret", "RetExps", "Semi", "Stat", "Elifs", "ForRest", "ForStep", "NameList2", "FuncName", "FnRest",
       "FuncBody", "ParList", "ParRest", "AttNames", "Attrib", "AttRest", "LocalInit", "ExpList", "ExpRest", "ExprStat",
       "AfterCall", "AfterIdx", "AssignTail", "LValue", "Lvs", "Lvs1", "CallSuf", "Args", "IdxSuf", "Exp", "UnOps", "BinRest",
       "SimpleExp", "Sufs", "Primary", "TableCons", "Fields", "Field", "FlatFields", "FlatArgs"}

\* productions: each alternative is a sequence of symbols (terminals are token kinds, written in lower case or as punctuation)
P(nt) ==
  CASE nt = "Block"     -> {<<"Stats">>, <<"Stats", "Ret">>}
    [] nt = "Stats"     -> {<<>>, <<"Stat", "Stats">>}
    [] nt = "Ret"       -> {<<"return", "RetExps", "Semi">>}
    [] nt = "RetExps"   -> {<<>>, <<"ExpList">>}
    [] nt = "Semi"      -> {<<>>, <<";">>}
    [] nt = "Stat"      -> {<<";">>, <<"goto", "name">>, <<"::", "name", "::">>, <<"do", "Block", "end">>,
                            <<"while", "Exp", "do", "Block", "end">>, <<"repeat", "Block", "until", "Exp">>,
                            <<"if", "Exp", "then", "Block", "Elifs", "end">>, <<"for", "name", "ForRest">>,
                            <<"function", "FuncName", "FuncBody">>, <<"local", "function", "name", "FuncBody">>,
                            <<"local", "AttNames", "LocalInit">>, <<"ExprStat">>}
    [] nt = "Elifs"     -> {<<>>, <<"elseif", "Exp", "then", "Block", "Elifs">>, <<"else", "Block">>}
    [] nt = "ForRest"   -> {<<"=", "Exp", ",", "Exp", "ForStep", "do", "Block", "end">>,
                            <<"NameList2", "in", "ExpList", "do", "Block", "end">>}
    [] nt = "ForStep"   -> {<<>>, <<",", "Exp">>}
    [] nt = "NameList2" -> {<<>>, <<",", "name", "NameList2">>}
    [] nt = "FuncName"  -> {<<"name", "FnRest">>}
    [] nt = "FnRest"    -> {<<>>, <<".", "name", "FnRest">>, <<":", "name">>}
    [] nt = "FuncBody"  -> {<<"(", "ParList", ")", "Block", "end">>}
    [] nt = "ParList"   -> {<<>>, <<"...">>, <<"name", "ParRest">>}
    [] nt = "ParRest"   -> {<<>>, <<",", "name", "ParRest">>, <<",", "...">>}
    [] nt = "AttNames"  -> {<<"name", "Attrib", "AttRest">>}
    [] nt = "Attrib"    -> {<<>>, <<"attr">>}                      \* attr renders as  <const>  or  <close>
    [] nt = "AttRest"   -> {<<>>, <<",", "name", "Attrib", "AttRest">>}
    [] nt = "LocalInit" -> {<<>>, <<"=", "ExpList">>}
    [] nt = "ExpList"   -> {<<"Exp", "ExpRest">>}
    [] nt = "ExpRest"   -> {<<>>, <<",", "Exp", "ExpRest">>}
    \* a statement that starts with an expression: a call, or an assignment to l-values
    [] nt = "ExprStat"  -> {<<"name", "AfterIdx">>, <<"(", "Exp", ")", "CallSuf", "AfterCall">>, <<"(", "Exp", ")", "IdxSuf", "AfterIdx">>}
                           \cup (IF DevParen THEN {<<"(", "Exp", ")", "AssignTail">>} ELSE {})
    [] nt = "AfterCall" -> {<<>>, <<"CallSuf", "AfterCall">>, <<"IdxSuf", "AfterIdx">>}
                           \cup (IF DevParen THEN {<<"AssignTail">>} ELSE {})
    [] nt = "AfterIdx"  -> {<<"CallSuf", "AfterCall">>, <<"IdxSuf", "AfterIdx">>, <<"AssignTail">>}
    [] nt = "AssignTail"-> {<<"=", "ExpList">>, <<",", "LValue", "AssignTail">>}
    [] nt = "LValue"    -> {<<"name", "Lvs">>, <<"(", "Exp", ")", "Lvs1">>}
                           \cup (IF DevParen THEN {<<"(", "Exp", ")">>} ELSE {})
    [] nt = "Lvs"       -> {<<>>, <<"IdxSuf", "Lvs">>, <<"CallSuf", "Lvs1">>}
    [] nt = "Lvs1"      -> {<<"IdxSuf", "Lvs">>, <<"CallSuf", "Lvs1">>}
                           \cup (IF DevParen THEN {<<>>} ELSE {})
    [] nt = "CallSuf"   -> {<<"Args">>, <<":", "name", "Args">>}
    [] nt = "Args"      -> {<<"(", "RetExps", ")">>, <<"TableCons">>, <<"string">>}
    [] nt = "IdxSuf"    -> {<<".", "name">>, <<"[", "Exp", "]">>}
    [] nt = "Exp"       -> {<<"UnOps", "SimpleExp", "BinRest">>}
    \* '-' and '~' are both unary and binary operators: they are their own token kinds
    [] nt = "UnOps"     -> {<<>>, <<"unop", "UnOps">>, <<"-", "UnOps">>, <<"~", "UnOps">>}
    [] nt = "BinRest"   -> {<<>>, <<"binop", "Exp">>, <<"-", "Exp">>, <<"~", "Exp">>}
    [] nt = "SimpleExp" -> {<<"number">>, <<"string">>, <<"nil">>, <<"true">>, <<"TableCons">>, <<"function", "FuncBody">>,
                            <<"Primary", "Sufs">>}
    [] nt = "Sufs"      -> {<<>>, <<"CallSuf", "Sufs">>, <<"IdxSuf", "Sufs">>}
    [] nt = "Primary"   -> {<<"name">>, <<"(", "Exp", ")">>}
    [] nt = "TableCons" -> {<<"{", "Fields", "}">>}
    [] nt = "Fields"    -> {<<>>, <<"Field">>, <<"Field", ",", "Fields">>, <<"Field", ";", "Fields">>}
    [] nt = "Field"     -> {<<"[", "Exp", "]", "=", "Exp">>, <<"name", "=", "Exp">>, <<"Exp">>}
    \* long flat lists (focus frames only): k = 1, k = 1, ...   and   1, 1, 1, ...
    [] nt = "FlatFields"-> {<<"name", "=", "number">>, <<"name", "=", "number", ",", "FlatFields">>}
    [] nt = "FlatArgs"  -> {<<"number">>, <<"number", ",", "FlatArgs">>}
    [] OTHER            -> {}

VARIABLES toks, stack

vars == <<toks, stack>>

StartOf(f) ==
    CASE f = "params"   -> <<"function", "name", "(", "ParList", ")", "end">>
      [] f = "forin"    -> <<"for", "name", "NameList2", "in", "name", "do", "end">>
      [] f = "attnames" -> <<"local", "AttNames", ";">>    \* (closed by ';': with '= nil' a stray name would start a new statement)
      [] f = "funcname" -> <<"function", "FuncName", "(", ")", "end">>
      [] f = "flatfields" -> <<"local", "name", "=", "{", "FlatFields", "}">>
      [] f = "flatargs" -> <<"name", "(", "FlatArgs", ")">>
      [] OTHER          -> <<"Block">>

Init == toks = <<>> /\ stack = StartOf(Focus)

\* minimal number of tokens a symbol still needs (to prune derivations that cannot finish within MaxTok)
MinLen(sym) ==
    CASE sym \in {"Block", "Stats", "RetExps", "Semi", "Elifs", "ForStep", "NameList2", "FnRest", "ParList", "ParRest", "Attrib",
                  "AttRest", "LocalInit", "ExpRest", "AfterCall", "Lvs", "UnOps", "BinRest", "Sufs", "Fields"} -> 0
      [] sym \in {"Ret", "Stat", "FuncName", "AttNames", "ExpList", "LValue", "Lvs1", "CallSuf", "Args", "Exp", "SimpleExp", "Primary", "Field"} -> 1
      [] sym \in {"IdxSuf", "ExprStat", "TableCons", "AssignTail"} -> 2
      [] sym \in {"FuncBody", "FlatFields"} -> 3
      [] sym = "ForRest" -> 4
      [] OTHER -> 1

RECURSIVE Need(_)
Need(s) == IF s = <<>> THEN 0 ELSE MinLen(Head(s)) + Need(Tail(s))

Expand ==
    /\ stack # <<>> /\ Head(stack) \in NT
    /\ \E alt \in P(Head(stack)) :
          LET ns == alt \o Tail(stack) IN
          /\ Len(ns) <= MaxStack
          /\ Len(toks) + Need(ns) <= MaxTok
          /\ stack' = ns
    /\ UNCHANGED toks

Shift ==
    /\ stack # <<>> /\ Head(stack) \notin NT
    /\ Len(toks) < MaxTok
    /\ toks' = Append(toks, Head(stack))
    /\ stack' = Tail(stack)

Next == Expand \/ Shift

Spec == Init /\ [][Next]_vars

\* model facts
Bounded == Len(toks) <= MaxTok /\ Len(stack) <= MaxStack
\* MinLen never overestimates on the symbols actually reached: a finished chunk is within the bound
Complete == stack = <<>>

\* every complete chunk has balanced brackets (never more closers than openers in a prefix, none left open): so a text
\* whose brackets do not balance -- e.g. a valid chunk with one opening bracket deleted -- is not a chunk
Openers == {"(", "{", "["}
Closers == {")", "}", "]"}
RECURSIVE Depths(_, _)
Depths(ts, d) == IF ts = <<>> THEN <<d>>
                 ELSE <<d>> \o Depths(Tail(ts), d + (IF Head(ts) \in Openers THEN 1 ELSE IF Head(ts) \in Closers THEN -1 ELSE 0))
Balanced == Complete => LET ds == Depths(toks, 0) IN (\A i \in 1..Len(ds) : ds[i] >= 0) /\ ds[Len(ds)] = 0

Emit == IF Complete THEN PrintT("@@J " \o ToJson([fam |-> "grammar", toks |-> toks])) ELSE TRUE
=============================================================================
