------------------------------ MODULE ModPath ------------------------------
(***************************************************************************)
(* C18: module strings of require / dofile resolve to workspace files as   *)
(* documented, and the features that depend on the resolution agree.       *)
(*                                                                         *)
(* Paths and module names are sequences of components.  The documented     *)
(* mapping (docs/manual/config.md: separator '.' or '/' maps to            *)
(* directories; ReferMatchPathFlag = 0 means the path need not be matched  *)
(* from the root): a module m resolves to every workspace file whose path  *)
(* ends, at a component boundary, with m.lua or with m/init.lua; a native  *)
(* library m.so is tolerated (no 'file not found'), but is no Lua file.    *)
(* The state is the set of files on disk; Create/Delete are the watched-   *)
(* file events; each behaviour carries the expected resolution after every *)
(* event.                                                                  *)
(***************************************************************************)
EXTENDS Integers, Sequences, FiniteSets, TLC, Json

CONSTANTS MaxEvents,
          MaxTree     \* largest initial tree (number of candidate files present)

\* candidate module files (as component sequences)
CandFiles == { <<"m.lua">>, <<"a", "m.lua">>, <<"b", "m.lua">>, <<"a", "b", "m.lua">>,
               <<"m", "init.lua">>, <<"a", "init.lua">>, <<"a", "m", "init.lua">>, <<"m.so">>,
               <<"xa", "m.lua">>,      \* a directory whose name merely ends with "a": no match for module a.m
               <<"m", "x", "m.lua">> } \* a directory named like the module on the way to another m.lua

\* module names used in require(...), as component sequences
Mods == { <<"m">>, <<"a", "m">>, <<"b", "m">>, <<"a", "b", "m">>, <<"a">>, <<"zz">> }

\* how the module string is spelled
Spellings == {"dot", "slash", "dofile"}

VARIABLES tree,    \* set of files present
          mod, sp, \* the module and its spelling (fixed per behaviour)
          hist,    \* events with expectations (output only)
          tree0    \* the initial tree (output only)

vars == <<tree, mod, sp, hist, tree0>>

Last(s) == s[Len(s)]
Front(s) == SubSeq(s, 1, Len(s) - 1)
IsSuffix(s, t) == Len(s) <= Len(t) /\ SubSeq(t, Len(t) - Len(s) + 1, Len(t)) = s

AsLua(m)  == Append(Front(m), Last(m) \o ".lua")
AsInit(m) == Append(m, "init.lua")
AsSo(m)   == Append(Front(m), Last(m) \o ".so")

\* the files module m denotes in a tree
Resolves(t, m, s) ==
    IF s = "dofile" THEN {f \in t : IsSuffix(AsLua(m), f)}                  \* dofile("a/m.lua") names the file itself
    ELSE {f \in t : IsSuffix(AsLua(m), f) \/ IsSuffix(AsInit(m), f)}
SoTolerated(t, m, s) == s # "dofile" /\ \E f \in t : IsSuffix(AsSo(m), f)

\* documented preference: name.lua before name/init.lua (when both are candidates with the same directory prefix)
Preferred(t, m, s) ==
    LET R == Resolves(t, m, s) IN
    {f \in R : ~(IsSuffix(AsInit(m), f) /\ \E g \in R : IsSuffix(AsLua(m), g) /\ Front(Front(f)) = Front(g))}

RECURSIVE Join(_, _)
Join(s, sep) == IF Len(s) = 0 THEN "" ELSE IF Len(s) = 1 THEN s[1] ELSE s[1] \o sep \o Join(Tail(s), sep)

Spell(m, s) == IF s = "dot" THEN Join(m, ".") ELSE IF s = "slash" THEN Join(m, "/") ELSE Join(AsLua(m), "/")

Expect(t) == [res |-> {Join(f, "/") : f \in Resolves(t, mod, sp)},
              pref |-> {Join(f, "/") : f \in Preferred(t, mod, sp)},
              so |-> SoTolerated(t, mod, sp)]

Init == /\ tree \in {t \in SUBSET CandFiles : Cardinality(t) <= MaxTree}
        /\ mod \in Mods
        /\ sp \in Spellings
        /\ hist = <<>>
        /\ tree0 = tree

Create(f) == /\ f \notin tree /\ tree' = tree \cup {f}
             /\ hist' = Append(hist, [ev |-> "Create", f |-> Join(f, "/"), exp |-> [res |-> {Join(g, "/") : g \in Resolves(tree \cup {f}, mod, sp)},
                                       pref |-> {Join(g, "/") : g \in Preferred(tree \cup {f}, mod, sp)}, so |-> SoTolerated(tree \cup {f}, mod, sp)]])
Delete(f) == /\ f \in tree /\ tree' = tree \ {f}
             /\ hist' = Append(hist, [ev |-> "Delete", f |-> Join(f, "/"), exp |-> [res |-> {Join(g, "/") : g \in Resolves(tree \ {f}, mod, sp)},
                                       pref |-> {Join(g, "/") : g \in Preferred(tree \ {f}, mod, sp)}, so |-> SoTolerated(tree \ {f}, mod, sp)]])

Next == /\ Len(hist) < MaxEvents
        \* the editor's watcher reports Lua files only: a native library appearing or vanishing is not a protocol event
        /\ \E f \in CandFiles \ {<<"m.so">>} : Create(f) \/ Delete(f)
        /\ UNCHANGED <<mod, sp, tree0>>

Spec == Init /\ [][Next]_vars

\* model facts: resolution is monotone in the tree, preferred is a non-empty subset when something resolves
Monotone == \A f \in CandFiles : Resolves(tree, mod, sp) \subseteq Resolves(tree \cup {f}, mod, sp)
PrefOK == /\ Preferred(tree, mod, sp) \subseteq Resolves(tree, mod, sp)
          /\ (Resolves(tree, mod, sp) # {}) => (Preferred(tree, mod, sp) # {})

Emit == IF Len(hist) = MaxEvents
        THEN PrintT("@@J " \o ToJson([fam |-> "modpath", tree0 |-> {Join(f, "/") : f \in tree0}, mod |-> Spell(mod, sp), sp |-> sp,
                                      exp0 |-> Expect(tree0), hist |-> hist]))
        ELSE TRUE
=============================================================================
