------------------------------ MODULE Modules ------------------------------
(***************************************************************************)
(* Workspaces of Lua modules: tables, their member functions and fields,   *)
(* and the ways a table travels between files (a global name, `return M` / *)
(* `require`).  This is the dimension Scope.tla leaves out: Scope.tla      *)
(* decides which *variable* an identifier denotes; this module follows the *)
(* *table* a variable holds, so that `A.f` in one file and `M.f` in        *)
(* another are occurrences of the same member when A is the required M.    *)
(*                                                                         *)
(* A behaviour appends one statement at a time to the current file or      *)
(* starts the next file.  Statements:                                      *)
(*   deftab  local M = {}            |  G = {}                             *)
(*   import  local I = require("fK")                                       *)
(*   alias   local L = X                                                   *)
(*   mdef    function X.m(p) end | function X:m(p) end | X.m = function(p) *)
(*           end | X.m = 1                                                 *)
(*   muse    print(X.m) | X.m(1) | X:m(1) | function X:zz(p) return self.m *)
(*           end | function X:zz(p) return function() return self.m end end *)
(*   ret     return X                  (last statement of its file)        *)
(* where X is a table variable visible at that point (a local of the file  *)
(* declared earlier, or the global G).                                     *)
(*                                                                         *)
(* Reference semantics carried in the state: `env` maps the visible local  *)
(* names of the current file to what they hold (a table identity, or the   *)
(* promise "whatever file K returns"); `ret` records what each file        *)
(* returns.  At emission every member occurrence is labelled with the      *)
(* identity of the table it indexes (0 = not statically known), so that    *)
(* Same(o1, o2) == same member name on the same table identity is the      *)
(* reference answer for "these are occurrences of one member".             *)
(*                                                                         *)
(* Used by: C04 (every range of every answer lies in its document and      *)
(* covers the identifier asked for), C11 (rename edits), C12 (the four     *)
(* answers agree), C19 (outline/workspace symbols of member functions).    *)
(***************************************************************************)
EXTENDS Integers, Sequences, FiniteSets, TLC, Json

CONSTANTS NFiles,     \* number of files
          MaxItems,   \* total number of statements
          MaxPerFile, \* statements per file
          Members,    \* member names, e.g. {"fa", "fb"}
          EmitMin,    \* print only workspaces with at least this many statements
          OneGlobal   \* TRUE: `G = {}` is executed at most once in the workspace (a global table created in two files is
                      \* the subject of the known finding Dev_GlobalDefinedInTwoFilesSplit)

VARIABLES files,  \* [1..NFiles -> Seq(items)]
          cur,    \* current file
          env,    \* locals of the current file: sequence of [n |-> name, h |-> holder]
          ret,    \* [1..NFiles -> holder]   what each file returns ([k |-> "none"] if nothing)
          ntab,   \* number of tables created
          gdef    \* has G = {} been executed somewhere (table identity of the global G, 0 if none)

vars == <<files, cur, env, ret, ntab, gdef>>

\* what a variable holds
Tab(t) == [k |-> "tab", id |-> t]
Mod(f) == [k |-> "mod", file |-> f]     \* the value of require("f<f>"), resolved when that file is complete
Nothing == [k |-> "none"]

Total == LET RECURSIVE Sum(_)
             Sum(i) == IF i = 0 THEN 0 ELSE Len(files[i]) + Sum(i - 1)
         IN Sum(NFiles)

More == Total < MaxItems /\ Len(files[cur]) < MaxPerFile
Closed == Len(files[cur]) > 0 /\ files[cur][Len(files[cur])].k = "ret"

\* visible table variables: locals of this file (latest declaration of a name wins) and the global G
LocalNames == {env[i].n : i \in 1..Len(env)}
Holder(x) == IF x = "G" THEN (IF gdef = 0 THEN Nothing ELSE Tab(gdef))
             ELSE LET S == {i \in 1..Len(env) : env[i].n = x}
                  IN env[CHOOSE i \in S : \A j \in S : j <= i].h
\* (the global table is used only after the statement that creates it, in file order: a program that indexes G before
\* any `G = {}` cannot run)
Visible == LocalNames \cup (IF gdef = 0 THEN {} ELSE {"G"})

Add(it) == files' = [files EXCEPT ![cur] = Append(@, it)]

Init == /\ files = [f \in 1..NFiles |-> <<>>]
        /\ cur = 1
        /\ env = <<>>
        /\ ret = [f \in 1..NFiles |-> Nothing]
        /\ ntab = 0
        /\ gdef = 0

\* local M = {}
DefLocal ==
    /\ More /\ ~Closed /\ "M" \notin LocalNames
    /\ Add([k |-> "deftab", n |-> "M", scope |-> "local", tid |-> ntab + 1])
    /\ env' = Append(env, [n |-> "M", h |-> Tab(ntab + 1)])
    /\ ntab' = ntab + 1
    /\ UNCHANGED <<cur, ret, gdef>>

\* G = {}   (a second execution creates a second table under the same global name)
DefGlobal ==
    /\ More /\ ~Closed /\ (OneGlobal => gdef = 0)
    /\ Add([k |-> "deftab", n |-> "G", scope |-> "global", tid |-> ntab + 1])
    /\ gdef' = ntab + 1
    /\ ntab' = ntab + 1
    /\ UNCHANGED <<cur, env, ret>>

\* local I = require("f<k>")
Import(k) ==
    /\ More /\ ~Closed /\ k # cur /\ "I" \notin LocalNames
    /\ Add([k |-> "import", n |-> "I", file |-> k])
    /\ env' = Append(env, [n |-> "I", h |-> Mod(k)])
    /\ UNCHANGED <<cur, ret, ntab, gdef>>

\* local L = X
Alias(x) ==
    /\ More /\ ~Closed /\ x \in Visible /\ "L" \notin LocalNames
    /\ Add([k |-> "alias", n |-> "L", x |-> x, h |-> Holder(x)])
    /\ env' = Append(env, [n |-> "L", h |-> Holder(x)])
    /\ UNCHANGED <<cur, ret, ntab, gdef>>

\* "deep" / "deepfield": the member is reached through an intermediate member that is created on the way:
\*   function X.sub.m(p) return p end   /   X.sub.m = 1
MStyles == {"dot", "colon", "assignfn", "field", "deep", "deepfield"}
\* "self" / "selfnest": the member is read through the implicit self of a colon method of X (directly, or from a
\* function literal nested in the method):  function X:zz(p) return self.m end
UStyles == {"read", "call", "mcall", "self", "selfnest", "deepread"}    \* deepread: print(X.sub.m)

\* a member definition on the table held by x
MDef(x, st, m) ==
    /\ More /\ ~Closed /\ x \in Visible
    /\ Add([k |-> "mdef", x |-> x, st |-> st, m |-> m, h |-> Holder(x)])
    /\ UNCHANGED <<cur, env, ret, ntab, gdef>>

\* a member use
MUse(x, st, m) ==
    /\ More /\ ~Closed /\ x \in Visible
    /\ Add([k |-> "muse", x |-> x, st |-> st, m |-> m, h |-> Holder(x)])
    /\ UNCHANGED <<cur, env, ret, ntab, gdef>>

\* return X
Ret(x) ==
    /\ More /\ ~Closed /\ x \in LocalNames
    /\ Add([k |-> "ret", x |-> x, h |-> Holder(x)])
    /\ ret' = [ret EXCEPT ![cur] = Holder(x)]
    /\ UNCHANGED <<cur, env, ntab, gdef>>

NextFile ==
    /\ cur < NFiles /\ Len(files[cur]) > 0
    /\ cur' = cur + 1
    /\ env' = <<>>
    /\ UNCHANGED <<files, ret, ntab, gdef>>

Next ==
    \/ DefLocal \/ DefGlobal
    \/ \E k \in 1..NFiles : Import(k)
    \/ \E x \in {"M", "G", "I", "L"} : Alias(x) \/ Ret(x)
    \/ \E x \in {"M", "G", "I", "L"}, st \in MStyles, m \in Members : MDef(x, st, m)
    \/ \E x \in {"M", "G", "I", "L"}, st \in UStyles, m \in Members : MUse(x, st, m)
    \/ NextFile

Spec == Init /\ [][Next]_vars

----------------------------------------------------------------------------
(* reference semantics at emission *)

\* the table identity a holder denotes once all files are complete (0 = not statically known); a chain of
\* requires is followed at most NFiles times (a cycle of requires denotes nothing)
RECURSIVE Resolve(_, _)
Resolve(h, fuel) ==
    IF h.k = "tab" THEN h.id
    ELSE IF h.k = "mod" /\ fuel > 0 THEN Resolve(ret[h.file], fuel - 1)
    ELSE 0

\* h becomes the resolved identity; hk keeps how the variable got its value ("tab": a table created in this file or the
\* global's, "mod": a require, "none")
Label(it) == IF "h" \in DOMAIN it
             THEN [f \in DOMAIN it \cup {"hk"} |-> IF f = "hk" THEN it.h.k ELSE IF f = "h" THEN Resolve(it.h, NFiles) ELSE it[f]]
             ELSE it
Labelled == [f \in 1..NFiles |-> [i \in 1..Len(files[f]) |-> Label(files[f][i])]]

\* model facts
TypeOK == /\ cur \in 1..NFiles /\ Total <= MaxItems
          /\ \A f \in 1..NFiles : Len(files[f]) <= MaxPerFile
\* a return is the last statement of its file
RetLast == \A f \in 1..NFiles : \A i \in 1..Len(files[f]) : files[f][i].k = "ret" => i = Len(files[f])
\* table identities are created in order
TabsFresh == \A f \in 1..NFiles : \A i \in 1..Len(files[f]) : files[f][i].k = "deftab" => files[f][i].tid <= ntab

Interesting == \E f \in 1..NFiles : \E i \in 1..Len(files[f]) : files[f][i].k \in {"mdef", "muse"}

Emit == IF Total >= EmitMin /\ Interesting
        THEN PrintT("@@J " \o ToJson([fam |-> "modules", files |-> Labelled]))
        ELSE TRUE
=============================================================================
