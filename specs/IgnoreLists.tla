---------------------------- MODULE IgnoreLists ----------------------------
(***************************************************************************)
(* C07, "configured-ignored names": luahelper.json can name globals that   *)
(* are provided from outside the workspace (IgnoreModules: exact names,    *)
(* IgnoreWildcardModules: shell patterns with * and ?).  A read of such a  *)
(* name is not an undefined variable; a read of any other unbound name     *)
(* still is.  A configuration is a subset of each list; the workspace      *)
(* reads every name of Names once (one per line) and defines none of them. *)
(***************************************************************************)
EXTENDS Integers, Sequences, FiniteSets, TLC, Json

Names == <<"g_cfgLevel", "g_cfg", "xg_cfg", "UI_x", "UI_xy", "UI_", "modA", "modAB", "other", "print">>
Exact == {"modA", "UI_xy"}
Patterns == {"g_cfg*", "UI_?", "*AB"}

\* documented meaning of the shell patterns on this name set
Matches(p, n) ==
    CASE p = "g_cfg*" -> n \in {"g_cfgLevel", "g_cfg"}
      [] p = "UI_?"   -> n = "UI_x"
      [] p = "*AB"    -> n = "modAB"
      [] OTHER        -> FALSE

BuiltIn(n) == n = "print"

VARIABLES exact, pats
vars == <<exact, pats>>
Init == exact \in SUBSET Exact /\ pats \in SUBSET Patterns
Next == UNCHANGED vars

Ignored(n) == n \in exact \/ \E p \in pats : Matches(p, n)
Undefined == {i \in 1..Len(Names) : ~BuiltIn(Names[i]) /\ ~Ignored(Names[i])}

\* model facts
BuiltInNeverReported == \A i \in 1..Len(Names) : BuiltIn(Names[i]) => i \notin Undefined
Monotone == \A i \in 1..Len(Names) : Ignored(Names[i]) => i \notin Undefined

Emit == PrintT("@@J " \o ToJson([fam |-> "ignorelists", names |-> Names, exact |-> exact, pats |-> pats, undefined |-> Undefined]))
=============================================================================
