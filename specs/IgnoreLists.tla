---------------------------- MODULE IgnoreLists ----------------------------
(***************************************************************************)
(* C07, "configured-ignored names": luahelper.json can name globals that   *)
(* are provided from outside the workspace (IgnoreModules: exact names,    *)
(* IgnoreWildcardModules: shell patterns with * and ?).  A read of such a  *)
(* name is not an undefined variable; a read of any other unbound name     *)
(* still is.  A configuration is a subset of each list; the workspace      *)
(* reads every name of Names once (one per line) and defines none of them. *)
(***************************************************************************)
EXTENDS Integers, Sequences, FiniteSets, TLC, Json

Names == <<"g_cfgLevel", "g_cfg", "xg_cfg", "UI_x", "UI_xy", "UI_", "modA", "modAB", "other", "print">>
Exact == {"modA", "UI_xy"}
Patterns == {"g_cfg*", "UI_?", "*AB"}

\* documented meaning of the shell patterns on this name set
Matches(p, n) ==
    CASE p = "g_cfg*" -> n \in {"g_cfgLevel", "g_cfg"}
      [] p = "UI_?"   -> n = "UI_x"
      [] p = "*AB"    -> n = "modAB"
      [] OTHER        -> FALSE

BuiltIn(n) == n = "print"

\* IgnoreFileVars: names provided from outside for the files of one directory only.  Three further files (one per
\* directory) each read the three names below; an entry covers a file when its File string occurs in the file's path.
Dirs == {"net/", "ui/", "core/"}
FileNames == {"NetEnv", "UiEnv", "Shared"}
FileEntries == {<<"net/", "NetEnv">>, <<"net/", "Shared">>, <<"ui/", "UiEnv">>, <<"ui/", "Shared">>}

VARIABLES exact, pats, fvars
vars == <<exact, pats, fvars>>
Init == exact \in SUBSET Exact /\ pats \in SUBSET Patterns /\ fvars \in SUBSET FileEntries
Next == UNCHANGED vars

\* the names a file of directory d still has to see reported
UndefinedIn(d) == {n \in FileNames : <<d, n>> \notin fvars}
\* model facts: a list of one directory never excuses a read in another
PerDirectory == \A d \in Dirs : \A n \in FileNames : (n \notin UndefinedIn(d)) => <<d, n>> \in fvars
CoreSeesAll == UndefinedIn("core/") = FileNames

Ignored(n) == n \in exact \/ \E p \in pats : Matches(p, n)
Undefined == {i \in 1..Len(Names) : ~BuiltIn(Names[i]) /\ ~Ignored(Names[i])}

\* model facts
BuiltInNeverReported == \A i \in 1..Len(Names) : BuiltIn(Names[i]) => i \notin Undefined
Monotone == \A i \in 1..Len(Names) : Ignored(Names[i]) => i \notin Undefined

Emit == PrintT("@@J " \o ToJson([fam |-> "ignorelists", names |-> Names, exact |-> exact, pats |-> pats, undefined |-> Undefined,
                                 filevars |-> [d \in {"net/", "ui/"} |-> {e[2] : e \in {x \in fvars : x[1] = d}}],
                                 undefin |-> [d \in Dirs |-> UndefinedIn(d)]]))
=============================================================================
