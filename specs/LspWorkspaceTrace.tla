------------------------ MODULE LspWorkspaceTrace ------------------------
(***************************************************************************)
(* Trace validation for LspWorkspace.tla (binding B2).  trace.ndjson holds *)
(* many recorded runs of the real server, separated by Reset lines.  Every *)
(* line carries the event and the logged observations after it:            *)
(*   client[f] : the client's view (last publishDiagnostics) of file f     *)
(*   fresh[f]  : the view a fresh real server gives for the current disk   *)
(*   syn[f]    : the syntax diagnostics of the current buffer of f         *)
(*   q, qclient[f], qfresh[f] : (on the last line of a run) the digests of  *)
(*               the answers to the query bundle, by this server and by a  *)
(*               fresh one                                                 *)
(* each a sequence of records [t |-> type, k |-> key].  The events are     *)
(* replayed through the actions of LspWorkspace.tla; after every step the  *)
(* two obligations of C08 are evaluated and the lines that break one are   *)
(* printed.                                                                *)
(***************************************************************************)
EXTENDS LspWorkspace

Trace == ndJsonDeserialize("trace.ndjson")

VARIABLE l          \* next line to consume

tvars == <<disk, buf, dirty, stable, hist, disk0, l>>

IsEvent(e) == l <= Len(Trace) /\ Trace[l].ev = e /\ l' = l + 1
Arg == Trace[l]

TReset ==
    /\ IsEvent("Reset")
    /\ disk' = [f \in Files |-> Arg.disk[f]]
    /\ buf' = [f \in Files |-> Closed]
    /\ dirty' = [f \in Files |-> FALSE]
    /\ stable' = [f \in Files |-> TRUE]

TCreate == IsEvent("Create") /\ Create(Arg.f, Arg.v)
TModify == IsEvent("Modify") /\ Modify(Arg.f, Arg.v)
TDelete == IsEvent("Delete") /\ Delete(Arg.f)
TOpen   == IsEvent("Open") /\ Open(Arg.f)
TEdit   == IsEvent("Edit") /\ Edit(Arg.f, Arg.v)
TSave   == IsEvent("Save") /\ Save(Arg.f, Arg.w)
TClose  == IsEvent("Close") /\ Close(Arg.f)

TraceInit ==
    /\ l = 1
    /\ disk = [f \in Files |-> Absent]
    /\ buf = [f \in Files |-> Closed]
    /\ dirty = [f \in Files |-> FALSE]
    /\ stable = [f \in Files |-> TRUE]
    /\ hist = <<>>
    /\ disk0 = [f \in Files |-> Absent]

TraceNext ==
    /\ (TReset \/ TCreate \/ TModify \/ TDelete \/ TOpen \/ TEdit \/ TSave \/ TClose)
    /\ UNCHANGED <<hist, disk0>>

TraceSpec == TraceInit /\ [][TraceNext]_tvars

----------------------------------------------------------------------------
SetOf(s) == {s[k] : k \in 1..Len(s)}
Cur == Trace[l - 1]        \* the line just consumed (observations after the event)

FreshBroken ==
    IF Quiescent THEN {f \in Files : SetOf(Cur.client[f]) # SetOf(Cur.fresh[f])} ELSE {}

DirtyBroken ==
    {f \in Files :
        /\ IsDirty(f) /\ stable[f]
        /\ LET syn == SetOf(Cur.syn[f])
               want == IF syn # {} THEN syn ELSE {d \in SetOf(Cur.fresh[f]) : d.t # 1}
           IN SetOf(Cur.client[f]) # want}

\* "... and the answers to queries are the same as those of a server freshly started": on the lines that carry the
\* answers to the query bundle (q), filed per file, and only when no buffer has unsaved edits
\* (when two files define the same global, which definition the answers use depends on map iteration order -- known
\* finding Dev_TieBrokenByMapOrder of C09 -- so two server instances need not agree: not compared then)
OneDefiner == Cardinality({f \in Files : disk[f] = "defg"}) <= 1
QueryBroken ==
    IF Quiescent /\ Cur.q /\ OneDefiner THEN {f \in Files : SetOf(Cur.qclient[f]) # SetOf(Cur.qfresh[f])} ELSE {}

Report ==
    IF l = 1 THEN TRUE
    ELSE IF FreshBroken = {} /\ DirtyBroken = {} /\ QueryBroken = {} THEN TRUE
    ELSE PrintT("@@J " \o ToJson([fam |-> "workspace-trace", line |-> l - 1, run |-> Cur.run, step |-> Cur.step,
                                  fresh |-> FreshBroken, dirty |-> DirtyBroken, query |-> QueryBroken]))

\* the whole file was consumed: one state per line plus the initial one
Consumed == l = Len(Trace) + 1
=============================================================================
