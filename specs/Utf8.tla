-------------------------------- MODULE Utf8 --------------------------------
(***************************************************************************)
(* C13 (second half): "text of UTF-8 sources is reproduced unaltered".     *)
(* Well-formed UTF-8 as the automaton of the Unicode standard (table 3-7), *)
(* over representative bytes of every class.  TLC enumerates all byte      *)
(* sequences up to MaxBytes and labels each as well-formed or not; the     *)
(* harness passes every one through the server's text normalisation        *)
(* (codingconv.ConvertStrToUtf8, which every comment goes through) and     *)
(* requires the well-formed ones to come back byte for byte.               *)
(***************************************************************************)
EXTENDS Integers, Sequences, FiniteSets, TLC, Json

CONSTANTS MaxBytes, Bytes      \* Bytes: representative byte values (naturals)

VARIABLES seq, st      \* bytes so far; automaton state: "ok", "c1" "c2" "c3" (continuations pending), special second-byte states, "bad"
vars == <<seq, st>>

In(b, lo, hi) == b >= lo /\ b <= hi

Step(s, b) ==
  CASE s = "bad" -> "bad"
    [] s = "ok" -> IF In(b, 0, 127) THEN "ok"
                   ELSE IF In(b, 194, 223) THEN "c1"
                   ELSE IF b = 224 THEN "e0"
                   ELSE IF In(b, 225, 236) \/ In(b, 238, 239) THEN "c2"
                   ELSE IF b = 237 THEN "ed"
                   ELSE IF b = 240 THEN "f0"
                   ELSE IF In(b, 241, 243) THEN "c3"
                   ELSE IF b = 244 THEN "f4"
                   ELSE "bad"
    [] s = "c1" -> IF In(b, 128, 191) THEN "ok" ELSE "bad"
    [] s = "c2" -> IF In(b, 128, 191) THEN "c1" ELSE "bad"
    [] s = "c3" -> IF In(b, 128, 191) THEN "c2" ELSE "bad"
    [] s = "e0" -> IF In(b, 160, 191) THEN "c1" ELSE "bad"
    [] s = "ed" -> IF In(b, 128, 159) THEN "c1" ELSE "bad"
    [] s = "f0" -> IF In(b, 144, 191) THEN "c2" ELSE "bad"
    [] s = "f4" -> IF In(b, 128, 143) THEN "c2" ELSE "bad"
    [] OTHER -> "bad"

Init == seq = <<>> /\ st = "ok"
Next == /\ Len(seq) < MaxBytes
        /\ \E b \in Bytes : seq' = Append(seq, b) /\ st' = Step(st, b)

WellFormed == st = "ok"

\* model fact: ASCII-only sequences are always well-formed
AsciiOK == (\A i \in 1..Len(seq) : seq[i] < 128) => WellFormed

Emit == IF seq # <<>> THEN PrintT("@@J " \o ToJson([fam |-> "utf8", bytes |-> seq, wf |-> WellFormed])) ELSE TRUE
=============================================================================
