------------------------------ MODULE Comments ------------------------------
(***************************************************************************)
(* C13: which comment is the documentation of a declaration.  A file is a  *)
(* sequence of lines; the machine emits one line per step and carries the  *)
(* block of `--` comment lines that is currently adjacent (acc).  The      *)
(* documented rule: the trailing comment on the declaration's own line     *)
(* wins; otherwise the contiguous block of short comments ending on the    *)
(* line directly above; a blank line, a code line, a long comment or an    *)
(* annotation line (---@...) breaks adjacency; annotation lines are not    *)
(* documentation.  Whether a long comment directly above counts is not     *)
(* settled by the statement (flag unspec).                                 *)
(* Each declaration records the documentation it must show (a sequence of  *)
(* text ids, rendered by the harness in different scripts).                *)
(***************************************************************************)
EXTENDS Integers, Sequences, FiniteSets, TLC, Json

CONSTANTS MaxLines, Texts, DeclKinds

VARIABLES lines,   \* emitted lines
          acc,     \* text ids of the adjacent short-comment block
          longAdj, \* a long comment or an annotation line ends on the previous line (the declaration's hover is then
                   \* governed by rules the statement does not settle: UNSPECIFIED)
          annoAdj, \* an annotation line belongs to the comment block that is still adjacent
          ndecl

vars == <<lines, acc, longAdj, annoAdj, ndecl>>

Init == lines = <<>> /\ acc = <<>> /\ longAdj = FALSE /\ annoAdj = FALSE /\ ndecl = 0

More == Len(lines) < MaxLines

Comment(t) == /\ More /\ Len(acc) < 2
              /\ lines' = Append(lines, [k |-> "comment", t |-> t])
              /\ acc' = Append(acc, t) /\ longAdj' = FALSE /\ UNCHANGED <<ndecl, annoAdj>>

Blank == /\ More /\ acc # <<>>          \* a blank line is only interesting after a comment
         /\ lines' = Append(lines, [k |-> "blank"])
         /\ acc' = <<>> /\ longAdj' = FALSE /\ annoAdj' = FALSE /\ UNCHANGED ndecl

Long(t) == /\ More
           /\ lines' = Append(lines, [k |-> "long", t |-> t])
           /\ acc' = <<>> /\ longAdj' = TRUE /\ UNCHANGED <<ndecl, annoAdj>>

Anno == /\ More /\ acc # <<>>
        /\ lines' = Append(lines, [k |-> "anno"])
        /\ acc' = <<>> /\ longAdj' = FALSE /\ annoAdj' = TRUE /\ UNCHANGED ndecl

Code == /\ More /\ acc # <<>>
        /\ lines' = Append(lines, [k |-> "code"])
        /\ acc' = <<>> /\ longAdj' = FALSE /\ annoAdj' = FALSE /\ UNCHANGED ndecl

\* a declaration, optionally with a trailing comment; tail = 0 means none
Decl(kind, tail) ==
    /\ More /\ ndecl < 3
    /\ lines' = Append(lines, [k |-> "decl", kind |-> kind, id |-> ndecl + 1, tail |-> tail,
                               doc |-> IF tail # 0 THEN <<tail>> ELSE acc,
                               unspec |-> (longAdj \/ annoAdj)])
    /\ acc' = <<>> /\ longAdj' = FALSE /\ annoAdj' = FALSE /\ ndecl' = ndecl + 1

Next == \/ \E t \in Texts : Comment(t) \/ Long(t)
        \/ Blank \/ Anno \/ Code
        \/ \E k \in DeclKinds, t \in Texts \cup {0} : Decl(k, t)

\* model facts
AccShort == Len(acc) <= 2
DocRule == \A i \in 1..Len(lines) :
              lines[i].k = "decl" =>
                 /\ (lines[i].tail # 0 => lines[i].doc = <<lines[i].tail>>)
                 /\ (lines[i].tail = 0 /\ i > 1 /\ lines[i-1].k \in {"blank", "code", "anno", "long", "decl"} => lines[i].doc = <<>>)

Emit == IF ndecl >= 1 /\ lines[Len(lines)].k = "decl"
        THEN PrintT("@@J " \o ToJson([fam |-> "comments", lines |-> lines]))
        ELSE TRUE
=============================================================================
