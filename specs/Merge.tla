------------------------------- MODULE Merge -------------------------------
(***************************************************************************)
(* C09: results are a function of workspace and configuration.  This       *)
(* module is implementation-shaped by necessity (the property is about the *)
(* freedom the implementation leaves to the scheduler): the cross-file     *)
(* global table is filled by visiting the files in an arbitrary order (Go  *)
(* map iteration), each definition of a global g being inserted unless an  *)
(* entry of another file is "better" (JudgeShouldInsertGlobalInfo,         *)
(* transcribed below); a lookup returns the entry inserted last.           *)
(*                                                                         *)
(* A workspace gives, per file, where that file defines g:                 *)
(*   [fl |-> function nesting, sl |-> block nesting, ln |-> line] or None. *)
(* TLC explores every visiting order of every workspace; the harness       *)
(* collects, per workspace, the set of possible winners: a singleton means *)
(* the model predicts a schedule-independent answer (and which), a larger  *)
(* set predicts an order-dependent one.                                    *)
(***************************************************************************)
EXTENDS Integers, Sequences, FiniteSets, TLC, Json

CONSTANTS Files, MaxLine

None == [fl |-> -1, sl |-> -1, ln |-> 0]
Defs == {[fl |-> f, sl |-> s, ln |-> l] : f \in {0, 1}, s \in {0, 1}, l \in 1..MaxLine}

VARIABLES ws,       \* [Files -> Defs \cup {None}]
          visited,  \* set of files already merged
          vec       \* sequence of inserted entries (file names)

vars == <<ws, visited, vec>>

\* transcription of JudgeShouldInsertGlobalInfo: reject if an entry of another file has a smaller function level,
\* a smaller block level, or a line that is not greater
Rejects(old, new) == old.fl < new.fl \/ old.sl < new.sl \/ old.ln <= new.ln

ShouldInsert(f) == \A k \in 1..Len(vec) : vec[k] = f \/ ~Rejects(ws[vec[k]], ws[f])

Init == /\ ws \in [Files -> Defs \cup {None}]
        /\ Cardinality({f \in Files : ws[f] # None}) >= 2
        /\ visited = {}
        /\ vec = <<>>

Visit(f) == /\ f \notin visited
            /\ visited' = visited \cup {f}
            /\ vec' = IF ws[f] # None /\ ShouldInsert(f) THEN Append(vec, f) ELSE vec
            /\ UNCHANGED ws

Next == \E f \in Files : Visit(f)

Done == visited = Files
Winner == IF vec = <<>> THEN "none" ELSE vec[Len(vec)]

\* model facts: something is always inserted when a definition exists; the table never holds a file twice
NonEmpty == Done => vec # <<>>
NoDup == \A i, j \in 1..Len(vec) : i # j => vec[i] # vec[j]

Emit == IF Done THEN PrintT("@@J " \o ToJson([fam |-> "merge", ws |-> ws, winner |-> Winner])) ELSE TRUE
=============================================================================
