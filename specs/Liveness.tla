------------------------------ MODULE Liveness ------------------------------
(***************************************************************************)
(* C01: the server stays alive and answers every request in bounded time.  *)
(* The observable protocol between a conformant client and the server:     *)
(* requests are sent and answered, notifications are sent, the server may  *)
(* push notifications, time passes in ticks.  Bad things are explicit      *)
(* actions -- the process dies (Crash), an internal fault is swallowed     *)
(* (Fault: the parser's recover() caught something that is not its own     *)
(* "too many errors" sentinel, i.e. the analysis of a file was silently    *)
(* abandoned), a request is still unanswered Deadline ticks after it was   *)
(* sent (Overdue) -- so that the property is the invariant Good, and       *)
(* LivenessTrace.tla can replay recorded sessions of the real server       *)
(* through these actions and report the first bad step.                    *)
(***************************************************************************)
EXTENDS Integers, Sequences, FiniteSets, TLC, Json

CONSTANTS Deadline, MaxId

VARIABLES pending,  \* unanswered requests: pairs <<id, tick at which the request was sent>>
          now,      \* ticks elapsed
          alive,
          fault

vars == <<pending, now, alive, fault>>

\* pending: set of pairs <<id, tick at which it was sent>>
Init == pending = {} /\ now = 0 /\ alive = TRUE /\ fault = FALSE

Send(id) == /\ alive /\ ~(\E p \in pending : p[1] = id)
            /\ pending' = pending \cup {<<id, now>>} /\ UNCHANGED <<now, alive, fault>>
Reply(id) == /\ alive /\ \E p \in pending : p[1] = id
             /\ pending' = {p \in pending : p[1] # id} /\ UNCHANGED <<now, alive, fault>>
Notify == alive /\ UNCHANGED vars
Push == alive /\ UNCHANGED vars
Tick == now' = now + 1 /\ UNCHANGED <<pending, alive, fault>>
Crash == alive' = FALSE /\ UNCHANGED <<pending, now, fault>>
Fault == fault' = TRUE /\ UNCHANGED <<pending, now, alive>>

Overdue == \E p \in pending : now - p[2] >= Deadline
Good == alive /\ ~fault /\ ~Overdue

\* design-level liveness of a well-behaved server: every request is eventually answered
Next == \/ \E id \in 1..MaxId : Send(id) \/ Reply(id)
        \/ Tick
Answered == \A id \in 1..MaxId : (\E p \in pending : p[1] = id) ~> ~(\E p \in pending : p[1] = id)
=============================================================================
