---------------------------- MODULE DispatchLin ----------------------------
(***************************************************************************)
(* C10, second half: every answer given while several messages were in      *)
(* flight equals the answer the same request gets in SOME sequential order  *)
(* of the same messages (binding B2).                                       *)
(*                                                                         *)
(* One line of lin.ndjson is one experiment on the real server:            *)
(*   msgs  : the messages in send order, [kind, ntf, cmp]                   *)
(*   conc  : the answers observed when they were sent back-to-back          *)
(*           (a digest per message, "" for notifications)                   *)
(*   perms : for sequential replays on fresh servers, [order, ans]: the     *)
(*           order in which the messages were sent one at a time (a         *)
(*           permutation of 1..n) and the answers obtained                  *)
(* An order is admissible for the dispatcher iff it keeps every message     *)
(* behind the notifications sent before it (jrpc2's barrier; requests may   *)
(* overtake each other and later notifications may overtake requests).      *)
(* TLC searches the admissible replayed orders for one that explains all    *)
(* concurrent answers.                                                      *)
(***************************************************************************)
EXTENDS Integers, Sequences, FiniteSets, TLC, Json

Runs == ndJsonDeserialize("lin.ndjson")

VARIABLE i

SeqSet(s) == {s[k] : k \in 1..Len(s)}
PosIn(order, m) == CHOOSE k \in 1..Len(order) : order[k] = m

Admissible(r, order) ==
    \A a, b \in 1..Len(r.msgs) :
        (a < b /\ r.msgs[a].ntf) => PosIn(order, a) < PosIn(order, b)

\* cmp = the message is a request whose answer is compared (notifications have none; a request whose answer is not a
\* function of the workspace even sequentially -- recorded under C09 -- is left out by the harness)
Explains(r, p) == \A m \in 1..Len(r.msgs) : ~r.msgs[m].cmp \/ r.conc[m] = p.ans[m]

Linearizable(r) == \E p \in SeqSet(r.perms) : Admissible(r, p.order) /\ Explains(r, p)

\* sanity of the experiment itself: at least one admissible order was replayed
Covered(r) == \E p \in SeqSet(r.perms) : Admissible(r, p.order)

Report ==
    LET r == Runs[i] IN
    IF Linearizable(r) THEN TRUE
    ELSE PrintT("@@J " \o ToJson([fam |-> "dispatch-lin", id |-> r.id, covered |-> Covered(r)]))

Init == i = 1
Next == i < Len(Runs) /\ i' = i + 1
=============================================================================
