---------------------------- MODULE TextSync ----------------------------
(***************************************************************************)
(* Text synchronisation between an LSP client and the server (C02).        *)
(*                                                                         *)
(* The state is the client's own text of each open document.  A document   *)
(* is a sequence of abstract characters [c |-> class, t |-> tag]; the class *)
(* decides how the character counts (UTF-16 units, line terminator), the    *)
(* tag only makes characters distinguishable so that a splice at the wrong  *)
(* place is visible.  Actions are the notifications of the protocol; each   *)
(* appends to `hist` the operation together with the text the server must   *)
(* hold afterwards (the ideal expectation) and the text predicted by each   *)
(* subset of the listed as-built deviations.                                *)
(***************************************************************************)
EXTENDS Integers, Sequences, FiniteSets, TLC, Json

CONSTANTS Uris,       \* set of document names
          Classes,    \* subset of {"a","LF","CR","c2","c3","c4"}
          MaxDoc,     \* longest initial / replacement document
          MaxIns,     \* longest inserted text
          MaxHist,    \* operations per behaviour
          MaxBatch,   \* range changes per didChange (1 or 2)
          MaxLen,     \* simulation only: documents at least this long only shrink
          EmitAll     \* TRUE: print every state with a non-empty history; FALSE: only complete ones

VARIABLES doc,    \* [Uris -> Seq(Char)]  client's text (meaningful when open)
          open,   \* [Uris -> BOOLEAN]
          fresh,  \* next tag
          first,  \* the texts the documents were opened with (never changes)
          hist    \* sequence of operation records (output only)

vars == <<doc, open, fresh, first, hist>>

----------------------------------------------------------------------------
(* Characters and positions *)

AllDevs == {"astral", "cr"}   \* Dev_AstralIsOneUnit, Dev_LoneCRNotLineEnd

Mk(cs, base) == [i \in 1..Len(cs) |-> [c |-> cs[i], t |-> base + i - 1]]

SeqsUpTo(S, n) == UNION {[1..k -> S] : k \in 0..n}

\* character i of d terminates a line (under deviation set dv)
IsBrk(dv, d, i) ==
    \/ d[i].c = "LF"
    \/ /\ d[i].c = "CR"
       /\ "cr" \notin dv
       /\ ~(i < Len(d) /\ d[i+1].c = "LF")

\* UTF-16 code units of a character (under deviation set dv)
Units(dv, ch) == IF ch.c = "c4" /\ "astral" \notin dv THEN 2 ELSE 1

\* <<line, character>> of the cut after k characters of d
PosOf(dv, d, k) ==
    LET brks == {i \in 1..k : IsBrk(dv, d, i)}
        ls   == IF brks = {} THEN 0 ELSE CHOOSE m \in brks : \A j \in brks : j <= m
        wide == {i \in (ls+1)..k : Units(dv, d[i]) = 2}
    IN <<Cardinality(brks), (k - ls) + Cardinality(wide)>>

PosTab(dv, d) == [k \in 0..Len(d) |-> PosOf(dv, d, k)]

\* cuts that are LSP positions: every character boundary except inside a CR LF pair
ValidCut(d, k) == ~(k >= 1 /\ k < Len(d) /\ d[k].c = "CR" /\ d[k+1].c = "LF")
ValidCuts(d) == {k \in 0..Len(d) : ValidCut(d, k)}

\* first cut whose position is p under dv, or -1 (what a forward scan finds)
CutFor(dv, d, p) ==
    LET T == PosTab(dv, d)
        S == {k \in 0..Len(d) : T[k] = p}
    IN IF S = {} THEN -1 ELSE CHOOSE k \in S : \A j \in S : k <= j

Splice(d, i, j, t) == SubSeq(d, 1, i) \o t \o SubSeq(d, j + 1, Len(d))

\* apply a batch of range changes given as positions; a change that cannot be located
\* makes the whole notification fail (text unchanged) -- the as-built behaviour.
RECURSIVE ApplyBatch(_, _, _, _)
ApplyBatch(dv, orig, d, chg) ==
    IF chg = <<>> THEN d
    ELSE LET c == Head(chg)
             i == CutFor(dv, d, c.s)
             j == CutFor(dv, d, c.e)
         IN IF i = -1 \/ j = -1 \/ j < i THEN orig
            ELSE ApplyBatch(dv, orig, Splice(d, i, j, c.t), Tail(chg))

Alts(d, chg) == [astral |-> ApplyBatch({"astral"}, d, d, chg),
                 cr     |-> ApplyBatch({"cr"}, d, d, chg),
                 both   |-> ApplyBatch(AllDevs, d, d, chg)]

----------------------------------------------------------------------------
(* Properties of the reference position arithmetic itself (checked by TLC) *)

\* on valid cuts, position is injective: LSP positions address each cut uniquely
PosInjective ==
    \A u \in Uris :
        LET d == doc[u]  T == PosTab({}, d) IN
        \A k1, k2 \in ValidCuts(d) : T[k1] = T[k2] => k1 = k2

\* positions are ordered like cuts
PosMonotone ==
    \A u \in Uris :
        LET d == doc[u]  T == PosTab({}, d) IN
        \A k1, k2 \in ValidCuts(d) :
            k1 < k2 => \/ T[k1][1] < T[k2][1]
                       \/ T[k1][1] = T[k2][1] /\ T[k1][2] < T[k2][2]

\* the ideal semantics always locates a valid position
IdealTotal ==
    \A u \in Uris : \A k \in ValidCuts(doc[u]) : CutFor({}, doc[u], PosTab({}, doc[u])[k]) = k

TypeOK == /\ \A u \in Uris : open[u] \in BOOLEAN
          /\ Len(hist) <= MaxHist

----------------------------------------------------------------------------
(* Actions *)

Init ==
    /\ \E cs \in [Uris -> SeqsUpTo(Classes, MaxDoc)] :
          /\ doc = [u \in Uris |-> Mk(cs[u], 1)]
          /\ first = [u \in Uris |-> Mk(cs[u], 1)]
    /\ open = [u \in Uris |-> TRUE]       \* every behaviour starts with didOpen of doc (recorded by the harness)
    /\ fresh = 100
    /\ hist = <<>>

More == Len(hist) < MaxHist

\* one range change on the current text d, described by cuts i <= j and a text
RangeChg(d, i, j, t) == [s |-> PosTab({}, d)[i], e |-> PosTab({}, d)[j], t |-> t]

ChangeRange1P(u, i, j, cs) ==
    /\ More /\ open[u]
    /\ i <= j
    /\ ~(i = j /\ cs = <<>>)                \* a no-op edit is legal but uninformative
    /\ LET d   == doc[u]
           t   == Mk(cs, fresh)
           chg == <<RangeChg(d, i, j, t)>>
           nd  == Splice(d, i, j, t)
       IN /\ doc' = [doc EXCEPT ![u] = nd]
          /\ fresh' = fresh + Len(cs)
          /\ hist' = Append(hist, [k |-> "change", u |-> u, chg |-> chg, exp |-> nd, alt |-> Alts(d, chg)])
    /\ UNCHANGED <<open, first>>

ChangeRange1(u) ==
    \E i \in ValidCuts(doc[u]) : \E j \in ValidCuts(doc[u]) : \E cs \in SeqsUpTo(Classes, MaxIns) :
        ChangeRange1P(u, i, j, cs)

\* a didChange carrying two range changes: the second is expressed against the text after the first
ChangeRange2P(u, i, j, cs, i2, j2, cs2) ==
    /\ MaxBatch >= 2 /\ More /\ open[u]
    /\ i <= j /\ i2 <= j2
    /\ LET d   == doc[u]
           t1  == Mk(cs, fresh)
           d1  == Splice(d, i, j, t1)
           t2  == Mk(cs2, fresh + Len(cs))
           chg == <<RangeChg(d, i, j, t1), RangeChg(d1, i2, j2, t2)>>
           nd  == Splice(d1, i2, j2, t2)
       IN /\ i2 \in ValidCuts(d1) /\ j2 \in ValidCuts(d1)
          /\ doc' = [doc EXCEPT ![u] = nd]
          /\ fresh' = fresh + Len(cs) + Len(cs2)
          /\ hist' = Append(hist, [k |-> "change", u |-> u, chg |-> chg, exp |-> nd, alt |-> Alts(d, chg)])
    /\ UNCHANGED <<open, first>>

ChangeRange2(u) ==
    LET d == doc[u] IN
    \E i \in ValidCuts(d) : \E j \in ValidCuts(d) : \E cs \in SeqsUpTo(Classes, 1) :
      /\ i <= j
      /\ \E d1 \in {Splice(d, i, j, Mk(cs, fresh))} :
         \E i2 \in ValidCuts(d1) : \E j2 \in ValidCuts(d1) :
           /\ i2 <= j2
           /\ \E cs2 \in SeqsUpTo(Classes, 1) : ChangeRange2P(u, i, j, cs, i2, j2, cs2)

\* full-text replacement (a content change without a range)
ChangeFull(u) ==
    /\ More /\ open[u]
    /\ \E cs \in SeqsUpTo(Classes, MaxDoc) :
          LET nd == Mk(cs, fresh) IN
          /\ doc' = [doc EXCEPT ![u] = nd]
          /\ fresh' = fresh + Len(cs)
          /\ hist' = Append(hist, [k |-> "full", u |-> u, t |-> nd, exp |-> nd])
    /\ UNCHANGED <<open, first>>

\* a didChange that carries a full-text replacement followed by a range change against the new text
ChangeFullRangeP(u, cs0, i, j, cs) ==
    /\ MaxBatch >= 2 /\ More /\ open[u]
    /\ i <= j
    /\ LET d0  == Mk(cs0, fresh)
           t   == Mk(cs, fresh + Len(cs0))
           chg == <<RangeChg(d0, i, j, t)>>
           nd  == Splice(d0, i, j, t)
       IN /\ i \in ValidCuts(d0) /\ j \in ValidCuts(d0)
          /\ doc' = [doc EXCEPT ![u] = nd]
          /\ fresh' = fresh + Len(cs0) + Len(cs)
          /\ hist' = Append(hist, [k |-> "mixed", u |-> u, t |-> d0, chg |-> chg, exp |-> nd, alt |-> Alts(d0, chg)])
    /\ UNCHANGED <<open, first>>

ChangeFullRange(u) ==
    \E cs0 \in SeqsUpTo(Classes, MaxDoc) : \E i \in 0..Len(cs0) : \E j \in 0..Len(cs0) : \E cs \in SeqsUpTo(Classes, 1) :
        ChangeFullRangeP(u, cs0, i, j, cs)

\* didSave with includeText: the client sends the text it holds
Save(u) ==
    /\ More /\ open[u]
    /\ hist' = Append(hist, [k |-> "save", u |-> u, t |-> doc[u], exp |-> doc[u]])
    /\ UNCHANGED <<doc, open, fresh, first>>

\* a request (hover, definition, highlight ...) reads the document: it never changes the text on either side
Query(u) ==
    /\ More /\ open[u]
    /\ hist' = Append(hist, [k |-> "query", u |-> u, exp |-> doc[u]])
    /\ UNCHANGED <<doc, open, fresh, first>>

Close(u) ==
    /\ More /\ open[u]
    /\ open' = [open EXCEPT ![u] = FALSE]
    /\ hist' = Append(hist, [k |-> "close", u |-> u])
    /\ UNCHANGED <<doc, fresh, first>>

Open(u) ==
    /\ More /\ ~open[u]
    /\ \E cs \in SeqsUpTo(Classes, MaxDoc) :
          LET nd == Mk(cs, fresh) IN
          /\ doc' = [doc EXCEPT ![u] = nd]
          /\ fresh' = fresh + Len(cs)
          /\ open' = [open EXCEPT ![u] = TRUE]
          /\ hist' = Append(hist, [k |-> "open", u |-> u, t |-> nd, exp |-> nd])
          /\ UNCHANGED first

Next == \E u \in Uris : \/ ChangeRange1(u) \/ ChangeRange2(u) \/ ChangeFull(u) \/ ChangeFullRange(u)
                        \/ Save(u) \/ Close(u) \/ Open(u)

\* the exhaustive one-step configuration uses range changes only
NextRange == \E u \in Uris : ChangeRange1(u) \/ ChangeRange2(u)

\* Simulation: parameters are drawn with RandomElement so that a step has one successor per action
\* (the exhaustive actions above have thousands on longer documents).
Lo(a, b) == IF a <= b THEN a ELSE b
Hi(a, b) == IF a <= b THEN b ELSE a
InsSet(d) == IF Len(d) >= MaxLen THEN {<<>>} ELSE SeqsUpTo(Classes, MaxIns)

\* (each RandomElement is bound by \E over a singleton so that it is drawn once)
SimChange1(u) ==
    /\ open[u]
    /\ \E a \in {RandomElement(ValidCuts(doc[u]))} : \E b \in {RandomElement(ValidCuts(doc[u]))} :
       \E cs \in {RandomElement(InsSet(doc[u]))} :
          ChangeRange1P(u, Lo(a, b), Hi(a, b), cs)

SimChange2(u) ==
    /\ open[u]
    /\ \E a \in {RandomElement(ValidCuts(doc[u]))} : \E b \in {RandomElement(ValidCuts(doc[u]))} :
       \E cs \in {RandomElement(InsSet(doc[u]))} :
       \E d1 \in {Splice(doc[u], Lo(a, b), Hi(a, b), Mk(cs, fresh))} :
       \E a2 \in {RandomElement(ValidCuts(d1))} : \E b2 \in {RandomElement(ValidCuts(d1))} :
       \E cs2 \in {RandomElement(InsSet(d1))} :
          ChangeRange2P(u, Lo(a, b), Hi(a, b), cs, Lo(a2, b2), Hi(a2, b2), cs2)

SimFull(u) ==
    /\ More /\ open[u]
    /\ \E cs \in {RandomElement(SeqsUpTo(Classes, MaxDoc))} :
       LET nd == Mk(cs, fresh) IN
       /\ doc' = [doc EXCEPT ![u] = nd]
       /\ fresh' = fresh + Len(cs)
       /\ hist' = Append(hist, [k |-> "full", u |-> u, t |-> nd, exp |-> nd])
    /\ UNCHANGED <<open, first>>

SimFullRange(u) ==
    \E cs0 \in {RandomElement(SeqsUpTo(Classes, MaxDoc))} :
    \E a \in {RandomElement(0..Len(cs0))} : \E b \in {RandomElement(0..Len(cs0))} :
    \E cs \in {RandomElement(SeqsUpTo(Classes, 1))} :
       ChangeFullRangeP(u, cs0, Lo(a, b), Hi(a, b), cs)

SimOpen(u) ==
    /\ More /\ ~open[u]
    /\ \E cs \in {RandomElement(SeqsUpTo(Classes, MaxDoc))} :
       LET nd == Mk(cs, fresh) IN
       /\ doc' = [doc EXCEPT ![u] = nd]
       /\ fresh' = fresh + Len(cs)
       /\ open' = [open EXCEPT ![u] = TRUE]
       /\ hist' = Append(hist, [k |-> "open", u |-> u, t |-> nd, exp |-> nd])
       /\ UNCHANGED first

NextSim == \E u \in Uris : \/ SimChange1(u) \/ SimChange2(u) \/ SimFull(u) \/ SimFullRange(u)
                           \/ Save(u) \/ Close(u) \/ SimOpen(u) \/ Query(u)

NextBatch2 == \E u \in Uris : ChangeRange2(u) \/ ChangeFullRange(u)

Spec == Init /\ [][Next]_vars

----------------------------------------------------------------------------
(* Output: one JSON line per behaviour to be replayed against the real server *)

Emit ==
    IF (Len(hist) = MaxHist) \/ (EmitAll /\ Len(hist) > 0)
    THEN PrintT("@@J " \o ToJson([fam |-> "textsync", first |-> first, ops |-> hist]))
    ELSE TRUE

\* closed documents carry no obligation
OpenView == [u \in Uris |-> IF open[u] THEN doc[u] ELSE <<>>]
=============================================================================
