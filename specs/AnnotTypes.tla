----------------------------- MODULE AnnotTypes -----------------------------
(***************************************************************************)
(* C16: the documented annotation syntax (docs/manual/annotate.md) as a    *)
(* bounded term language.  Types are records:                              *)
(*   name | table | T[] | table<K,V> | fun(p: T, q?: T): R, R | T | U |    *)
(*   (T) | "const"                                                         *)
(* Toks(t) writes a type as the token sequence of the documented surface   *)
(* syntax (parentheses where the documentation needs them), Norm(t) is its *)
(* structure with redundant parentheses removed and unions flattened.      *)
(* Lines are the ten documented annotation kinds around such types.  TLC   *)
(* enumerates lines (one per state) with the structure every reader of the *)
(* documentation would understand; the harness gives the text to the real  *)
(* annotation parser and compares the understood structure, re-reads the   *)
(* printed form, and embeds lines and their corruptions in files for the   *)
(* real server.                                                            *)
(***************************************************************************)
EXTENDS Integers, Sequences, FiniteSets, TLC, Json

CONSTANTS Level      \* "quick" | "thorough"

N(n) == [k |-> "name", n |-> n]
Tab0 == [k |-> "table"]
Arr(t) == [k |-> "arr", e |-> t]
Tab(a, b) == [k |-> "tab", key |-> a, val |-> b]
Par(t) == [k |-> "paren", t |-> t]
Un(a, b) == [k |-> "union", l |-> a, r |-> b]
Const(s) == [k |-> "const", s |-> s]
Prm(n, t, o) == [n |-> n, t |-> t, opt |-> o]
Fun(ps, rs) == [k |-> "fun", ps |-> ps, rs |-> rs]

L0 == {N("CA"), N("CB"), N("string"), Tab0}

NeedsParInArr(t) == t.k \in {"union", "fun"}
NeedsParInUnion(t) == t.k = "fun"

ArrOf(S) == {Arr(t) : t \in {x \in S : ~NeedsParInArr(x)}}
UnOf(A, B) == {Un(a, b) : a \in {x \in A : ~NeedsParInUnion(x)}, b \in {x \in B : ~NeedsParInUnion(x) /\ x.k # "union"}}
FunOf(A, B) == {Fun(<<>>, <<>>)} \cup {Fun(<<Prm("pa", a, FALSE)>>, <<>>) : a \in A}
               \cup {Fun(<<Prm("pa", a, o)>>, <<b>>) : a \in A, b \in {x \in B : x.k # "fun"}, o \in BOOLEAN}
               \* (a function type with a return list followed by ", name: T" is ambiguous: not used as a non-last parameter type)
               \cup {Fun(<<Prm("pa", a, FALSE), Prm("pb", b, TRUE)>>, <<a, b>>) : a \in {x \in A : x.k # "fun"}, b \in {x \in B : x.k # "fun"}}

L1 == L0 \cup ArrOf(L0) \cup {Tab(a, b) : a \in L0, b \in L0} \cup UnOf(L0, L0) \cup {Par(t) : t \in L0}
         \cup FunOf(L0, L0) \cup {Const("r")}

\* key types of table<K,V>: the simple types and two unions (K is a type like any other)
Keys2 == L0 \cup {Un(N("string"), N("CA")), Un(N("CA"), N("CB"))}

L2 == L1 \cup ArrOf(L1) \cup {Tab(a, b) : a \in Keys2, b \in L1} \cup UnOf(L1, L0) \cup UnOf(L0, L1)
         \cup {Par(t) : t \in L1} \cup FunOf(L0, L1) \cup FunOf(L1, L0)

L3 == L2 \cup ArrOf(L2) \cup {Par(t) : t \in L2} \cup {Tab(a, b) : a \in L0, b \in L2} \cup UnOf(L2, L0)

TypeSet == IF Level = "thorough" THEN L3 ELSE L2

----------------------------------------------------------------------------
(* surface syntax (token sequences) and structure *)

RECURSIVE Toks(_)
RECURSIVE TokList(_, _)
RECURSIVE PrmToks(_)
TokList(ts, sep) == IF ts = <<>> THEN <<>> ELSE IF Len(ts) = 1 THEN Toks(ts[1]) ELSE Toks(ts[1]) \o <<sep>> \o TokList(Tail(ts), sep)
PrmToks(ps) == IF ps = <<>> THEN <<>>
               ELSE (IF ps[1].opt THEN <<ps[1].n, "?", ":">> ELSE <<ps[1].n, ":">>) \o Toks(ps[1].t)
                    \o (IF Len(ps) > 1 THEN <<",">> \o PrmToks(Tail(ps)) ELSE <<>>)
Toks(t) ==
    CASE t.k = "name"  -> <<t.n>>
      [] t.k = "table" -> <<"table">>
      [] t.k = "arr"   -> Toks(t.e) \o <<"[", "]">>
      [] t.k = "tab"   -> <<"table", "<">> \o Toks(t.key) \o <<",">> \o Toks(t.val) \o <<">">>
      [] t.k = "paren" -> <<"(">> \o Toks(t.t) \o <<")">>
      [] t.k = "union" -> Toks(t.l) \o <<"|">> \o Toks(t.r)
      [] t.k = "const" -> <<"\"" \o t.s \o "\"">>
      [] t.k = "fun"   -> <<"fun", "(">> \o PrmToks(t.ps) \o <<")">> \o (IF t.rs = <<>> THEN <<>> ELSE <<":">> \o TokList(t.rs, ","))

\* structure: parentheses removed, unions flattened to a sequence of members
RECURSIVE Norm(_)
RECURSIVE Members(_)
RECURSIVE NormSeq(_)
RECURSIVE NormPrms(_)
Members(t) == IF t.k = "union" THEN Members(t.l) \o Members(t.r)
              ELSE IF t.k = "paren" THEN Members(t.t)
              ELSE <<Norm(t)>>
NormSeq(ts) == IF ts = <<>> THEN <<>> ELSE <<Norm(ts[1])>> \o NormSeq(Tail(ts))
NormPrms(ps) == IF ps = <<>> THEN <<>> ELSE <<[n |-> ps[1].n, t |-> Norm(ps[1].t), opt |-> ps[1].opt]>> \o NormPrms(Tail(ps))
Norm(t) ==
    CASE t.k = "paren" -> Norm(t.t)
      [] t.k = "union" -> [k |-> "nunion", ms |-> Members(t)]
      [] t.k = "arr"   -> [k |-> "arr", e |-> Norm(t.e)]
      [] t.k = "tab"   -> [k |-> "tab", key |-> Norm(t.key), val |-> Norm(t.val)]
      [] t.k = "fun"   -> [k |-> "fun", ps |-> NormPrms(t.ps), rs |-> NormSeq(t.rs)]
      [] OTHER -> t

RECURSIVE Has(_, _)
RECURSIVE HasSeq(_, _)
HasSeq(ts, kind) == ts # <<>> /\ (Has(ts[1], kind) \/ HasSeq(Tail(ts), kind))
Has(t, kind) ==
    \/ t.k = kind
    \/ t.k = "arr" /\ Has(t.e, kind)
    \/ t.k = "tab" /\ (Has(t.key, kind) \/ Has(t.val, kind))
    \/ t.k = "paren" /\ Has(t.t, kind)
    \/ t.k = "union" /\ (Has(t.l, kind) \/ Has(t.r, kind))
    \/ t.k = "nunion" /\ HasSeq(t.ms, kind)
    \/ t.k = "fun" /\ (HasSeq(t.rs, kind) \/ \E i \in 1..Len(t.ps) : Has(t.ps[i].t, kind))

----------------------------------------------------------------------------
(* annotation lines *)

Kinds == {"type", "type2", "field", "fieldvis", "fieldpub", "fieldpriv", "param", "paramopt", "paramvar", "return", "return2", "return2opt", "alias", "vararg", "overload",
          "class", "class1", "class2", "generic", "generic2", "enum", "enumstart", "enumend"}

Comment == <<"@", "note">>     \* optional trailing  @comment

\* token sequence of a line of kind kd around type t (and t2 for the two-type forms)
LineToks(kd, t, t2) ==
    CASE kd = "type"     -> <<"type">> \o Toks(t)
      [] kd = "type2"    -> <<"type">> \o Toks(t) \o <<",">> \o Toks(t2)
      [] kd = "field"    -> <<"field", "fname">> \o Toks(t)
      [] kd = "fieldvis" -> <<"field", "protected", "fname">> \o Toks(t)
      [] kd = "fieldpub" -> <<"field", "public", "fname">> \o Toks(t)
      [] kd = "fieldpriv" -> <<"field", "private", "fname">> \o Toks(t)
      [] kd = "param"    -> <<"param", "pname">> \o Toks(t)
      [] kd = "paramopt" -> <<"param", "pname", "?">> \o Toks(t)
      \* the variadic parameter is named '...' (not in docs/manual/annotate.md; written as the parser implements it)
      [] kd = "paramvar" -> <<"param", "...">> \o Toks(t)
      [] kd = "return"   -> <<"return">> \o Toks(t)
      [] kd = "return2"  -> <<"return">> \o Toks(t) \o <<",">> \o Toks(t2)
      \* the first of two results marked optional: the marker is not part of the type, and the second result still counts
      [] kd = "return2opt" -> <<"return">> \o Toks(t) \o <<"?", ",">> \o Toks(t2)
      [] kd = "alias"    -> <<"alias", "AliasN">> \o Toks(t)
      [] kd = "vararg"   -> <<"vararg">> \o Toks(t)
      [] kd = "overload" -> <<"overload">> \o Toks(t)
      [] kd = "class"    -> <<"class", "CNew">>
      [] kd = "class1"   -> <<"class", "CNew", ":", "CA">>
      [] kd = "class2"   -> <<"class", "CNew", ":", "CA", ",", "CB">>
      [] kd = "generic"  -> <<"generic", "G1">>
      [] kd = "generic2" -> <<"generic", "G1", ":", "CA", ",", "G2">>
      \* the enum block markers are not described in docs/manual/annotate.md; they are written as the parser implements them
      [] kd = "enum"     -> <<"enum">>
      [] kd = "enumstart" -> <<"enum", "start">>
      [] kd = "enumend"  -> <<"enum", "end">>

\* what the line declares besides its types: the declared name and, for fields, the visibility
Subject(kd) == CASE kd \in {"field", "fieldvis", "fieldpub", "fieldpriv"} -> "fname"
                 [] kd \in {"param", "paramopt"} -> "pname"
                 [] kd = "alias" -> "AliasN"
                 [] kd \in {"class", "class1", "class2"} -> "CNew"
                 [] OTHER -> ""
Visibility(kd) == CASE kd = "fieldvis" -> "protected" [] kd = "fieldpriv" -> "private"
                    [] kd \in {"field", "fieldpub"} -> "public" [] OTHER -> ""

Typed == {"type", "field", "fieldvis", "fieldpub", "fieldpriv", "param", "paramopt", "paramvar", "return", "alias", "vararg"}
Typed2 == {"type2", "return2", "return2opt"}
Untyped == {"class", "class1", "class2", "generic", "generic2", "enum", "enumstart", "enumend"}

VARIABLES kind, ty, ty2, cmt
vars == <<kind, ty, ty2, cmt>>

Init == /\ kind \in Kinds
        /\ cmt \in BOOLEAN
        /\ \/ kind \in Typed /\ ty \in TypeSet /\ ty2 = Tab0
           \* (a function type followed by ", T" would read T as a further return type: not used as first of two)
           \/ kind \in Typed2 /\ ty \in {t \in L1 : t.k # "fun"} /\ ty2 \in L1
           \/ kind = "overload" /\ ty \in {t \in TypeSet : t.k = "fun"} /\ ty2 = Tab0
           \/ kind \in Untyped /\ ty = Tab0 /\ ty2 = Tab0
        \* the comment variant only for a sample of the lines
        /\ (cmt => (kind \in Untyped \/ ty \in L1))
        \* the explicit public / private spellings only around the shallow types
        /\ (kind \in {"fieldpub", "fieldpriv", "paramvar"} => ty \in L1)

Next == UNCHANGED vars

Line == LineToks(kind, ty, ty2) \o (IF cmt THEN Comment ELSE <<>>)
ExpTypes == IF kind \in Typed \cup {"overload"} THEN <<Norm(ty)>>
            ELSE IF kind \in Typed2 THEN <<Norm(ty), Norm(ty2)>>
            ELSE <<>>

\* as-built (known finding Dev_NestedArrayCollapses): T[][] is understood as T[]
RECURSIVE Collapse(_)
RECURSIVE CollapseSeq(_)
RECURSIVE CollapsePrms(_)
CollapseSeq(ts) == IF ts = <<>> THEN <<>> ELSE <<Collapse(ts[1])>> \o CollapseSeq(Tail(ts))
CollapsePrms(ps) == IF ps = <<>> THEN <<>> ELSE <<[ps[1] EXCEPT !.t = Collapse(ps[1].t)]>> \o CollapsePrms(Tail(ps))
Collapse(t) ==
    CASE t.k = "arr" -> IF t.e.k = "arr" THEN Collapse(t.e) ELSE [k |-> "arr", e |-> Collapse(t.e)]
      [] t.k = "tab" -> [k |-> "tab", key |-> Collapse(t.key), val |-> Collapse(t.val)]
      [] t.k = "nunion" -> [k |-> "nunion", ms |-> CollapseSeq(t.ms)]
      [] t.k = "fun" -> [k |-> "fun", ps |-> CollapsePrms(t.ps), rs |-> CollapseSeq(t.rs)]
      [] OTHER -> t

\* model facts: writing and structure agree on what matters
NormIdempotent == kind \in Typed => Norm(Norm(ty)) = Norm(ty)
NoParenInNorm == kind \in Typed => ~Has(Norm(ty), "paren")

Emit == PrintT("@@J " \o ToJson([fam |-> "annot", kind |-> kind, toks |-> Line, types |-> ExpTypes, typesdev |-> CollapseSeq(ExpTypes), cmt |-> cmt,
                                 subject |-> Subject(kind), vis |-> Visibility(kind),
                                 const |-> (kind \in Typed \cup Typed2 /\ (Has(ty, "const") \/ Has(ty2, "const"))),
                                 paren |-> (kind \in Typed \cup Typed2 \cup {"overload"} /\ (Has(ty, "paren") \/ Has(ty2, "paren"))),
                                 fun |-> (kind \in Typed \cup Typed2 \cup {"overload"} /\ (Has(ty, "fun") \/ Has(ty2, "fun")))]))
=============================================================================
