----------------------------- MODULE ClassGraph -----------------------------
(***************************************************************************)
(* C15: a variable annotated with a type gets exactly the declared and     *)
(* inherited members.  A workspace of annotation classes is a parent       *)
(* relation (arbitrary: single, multiple, diamond, self-loop, cycles), a   *)
(* set of classes that also declare a field of a shared name (every class  *)
(* declares one field of its own), and two aliases whose targets may be    *)
(* classes or each other (alias cycles included).  The variable's type is  *)
(* a class or alias, plain, as array element (T[], indexed v[1]) or as map *)
(* value (table<string,T>, indexed v["k"]); the wrapper is written on the  *)
(* ---@type line or inside the alias that names the class.                 *)
(* Members(T) = least fixed point over aliases (with a visited set: an     *)
(* alias cycle denotes no type) and over parents.                          *)
(***************************************************************************)
EXTENDS Integers, Sequences, FiniteSets, TLC, Json

CONSTANTS Classes, Level    \* Level: "quick", "thorough", or "cycles" (C01: only hierarchies with an inheritance cycle)

Aliases == {"X", "Y"}
Wrappers == {"plain", "array", "array2", "dict"}   \* array2: T[][], indexed twice

VARIABLES parents,  \* [Classes -> SUBSET Classes]
          shared,   \* SUBSET Classes : classes that declare the field "fshared" besides their own field
          alias,    \* [Aliases -> Classes \cup Aliases]
          ty,       \* the type name the variable is annotated with
          wrap,
          split,    \* "none", or a class that is declared a second time in a further file with one more field (a class
                    \* split across files has the fields of all its declarations)
          layout,   \* how the class declarations are spread over files: "AB|C", "ABC" (one file), "A|B|C"
          where     \* where the wrapper is written: "type" = on the ---@type line (X[]), "alias" = in the alias that
                    \* names the class (---@alias X KA[] ... ---@type X); the variable is indexed either way

vars == <<parents, shared, alias, ty, wrap, split, layout, where>>

\* ancestors of a class, itself included (reflexive-transitive closure; terminates on cycles)
RECURSIVE Up(_, _)
Up(S, seen) == LET new == (UNION {parents[c] : c \in S}) \ seen
               IN IF new = {} THEN seen ELSE Up(new, seen \cup new)
Ancestors(c) == Up({c}, {c})

\* the class an alias chain ends in, or "none" for a cycle
RECURSIVE Resolve(_, _)
Resolve(t, seen) == IF t \in Classes THEN t
                    ELSE IF t \in seen THEN "none"
                    ELSE Resolve(alias[t], seen \cup {t})

Target == Resolve(ty, {})

OwnField(c) == "f_" \o c
ExtraField(c) == "f_" \o c \o "x"      \* the field of the class's second declaration
Members == IF Target = "none" THEN {}
           ELSE {OwnField(c) : c \in Ancestors(Target)} \cup (IF Ancestors(Target) \cap shared # {} THEN {"fshared"} ELSE {})
                \cup (IF split \in Ancestors(Target) THEN {ExtraField(split)} ELSE {})

\* After the file that holds the declaration of class g alone is deleted (and the deletion reported), g is no class any
\* more: a variable typed with it has no members, and a class that names it as parent inherits nothing through it.
RECURSIVE UpW(_, _, _)
UpW(S, seen, g) == LET new == (UNION {parents[c] \ {g} : c \in S}) \ seen
                   IN IF new = {} THEN seen ELSE UpW(new, seen \cup new, g)
AncestorsW(c, g) == UpW({c}, {c}, g)
MembersAfter(g) == IF Target = "none" \/ Target = g THEN {}
                   ELSE {OwnField(c) : c \in AncestorsW(Target, g)}
                        \cup (IF AncestorsW(Target, g) \cap shared # {} THEN {"fshared"} ELSE {})
                        \cup (IF split \in AncestorsW(Target, g) THEN {ExtraField(split)} ELSE {})
\* model fact: deleting a class never adds members
DeleteShrinks == \A g \in Classes : MembersAfter(g) \subseteq Members

\* As built (known finding Dev_SplitClassLocalDeclarationHidesOthers): a class name is looked up in the file the
\* lookup starts from first, and only if that file does not declare it in all files.  The ---@type line and the
\* aliases sit in main.lua, which declares no class; a parent is looked up from the file of the class that names it.
\* So the second declaration of the split class is seen only when the class is the target itself or is named as a
\* parent by a class of another file.
FileOf(c) == IF layout = "ABC" THEN 1
             ELSE IF layout = "A|B|C" THEN (IF c = "KA" THEN 1 ELSE IF c = "KB" THEN 3 ELSE 2)
             ELSE (IF c = "KC" THEN 2 ELSE 1)
SplitSeen == split # "none" /\ Target # "none" /\
             (Target = split \/ \E c \in Ancestors(Target) : split \in parents[c] /\ FileOf(c) # FileOf(split))
MembersDev == IF split # "none" /\ ~SplitSeen THEN Members \ {ExtraField(split)} ELSE Members

\* which classes may be the declaring class of member m (go-to-definition may land on any of them)
Declarers(m) == IF Target = "none" THEN {}
                ELSE IF m = "fshared" THEN Ancestors(Target) \cap shared
                ELSE {c \in Ancestors(Target) : OwnField(c) = m \/ (c = split /\ ExtraField(c) = m)}

DefaultAlias == [a \in Aliases |-> CHOOSE c \in Classes : TRUE]
AliasCfgs == IF Level = "thorough" THEN [Aliases -> Classes \cup Aliases]
             ELSE {a \in [Aliases -> Classes \cup Aliases] : a["Y"] \in {"X", "Y"} \/ a["X"] = "Y"} \cup {DefaultAlias}

HasCycle == \E c \in Classes : c \in UNION {Ancestors(p) : p \in parents[c]}

Init == /\ parents \in [Classes -> SUBSET Classes]
        /\ shared \in SUBSET Classes
        /\ alias \in AliasCfgs
        /\ ty \in Classes \cup Aliases
        /\ wrap \in Wrappers
        /\ where \in {"type", "alias"}
        /\ layout \in {"AB|C", "ABC", "A|B|C"}
        /\ split \in {"none", "KA"}
        /\ (Level = "quick" /\ split # "none" => wrap = "plain" /\ shared = {} /\ layout = "AB|C" /\ where = "type")
        /\ (Level = "cycles" => split = "none")
        \* thorough: the file layouts and the split class are crossed with every hierarchy and shared-field set, but
        \* not with the wrappers and alias configurations (the full product is beyond an hour of replay)
        /\ (Level = "thorough" /\ (layout # "AB|C" \/ split # "none") => wrap = "plain" /\ ty \in Classes)
        /\ (Level = "quick" /\ layout # "AB|C" => wrap = "plain" /\ shared = {} /\ ty \in Classes)
        /\ (Level = "cycles" => HasCycle /\ wrap = "plain" /\ shared = {} /\ ty \in Classes)
        /\ (where = "alias" => ty \in Aliases /\ wrap # "plain" /\ Resolve(ty, {}) # "none")
        \* aliases matter only when the variable is typed through one
        /\ (ty \in Classes => alias = DefaultAlias)
        /\ (Level = "quick" => (wrap = "plain" \/ shared = {}))
        /\ (wrap = "array2" => shared = {} /\ where = "type")
        /\ (Level = "quick" => Cardinality({<<c, d>> \in Classes \X Classes : d \in parents[c]}) <= 3)

Next == UNCHANGED vars

\* model facts
MembersMonotone == \A c \in Classes : OwnField(c) \in Members => c \in Ancestors(Target)
SelfMember == Target # "none" => OwnField(Target) \in Members
CycleSafe == Target \in Classes \cup {"none"}

Emit == PrintT("@@J " \o ToJson([fam |-> "classgraph", parents |-> parents, shared |-> shared, alias |-> alias, ty |-> ty, wrap |-> wrap, where |-> where, layout |-> layout, split |-> split,
                                 target |-> Target, members |-> Members, membersafter |-> MembersAfter("KC"), membersdev |-> MembersDev,
                                 decl |-> [m \in Members |-> Declarers(m)]]))
=============================================================================
