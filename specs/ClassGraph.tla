----------------------------- MODULE ClassGraph -----------------------------
(***************************************************************************)
(* C15: a variable annotated with a type gets exactly the declared and     *)
(* inherited members.  A workspace of annotation classes is a parent       *)
(* relation (arbitrary: single, multiple, diamond, self-loop, cycles), a   *)
(* set of classes that also declare a field of a shared name (every class  *)
(* declares one field of its own), and two aliases whose targets may be    *)
(* classes or each other (alias cycles included).  The variable's type is  *)
(* a class or alias, plain, as array element (T[], indexed v[1]) or as map *)
(* value (table<string,T>, indexed v["k"]); the wrapper is written on the  *)
(* ---@type line or inside the alias that names the class.                 *)
(* Members(T) = least fixed point over aliases (with a visited set: an     *)
(* alias cycle denotes no type) and over parents.                          *)
(***************************************************************************)
EXTENDS Integers, Sequences, FiniteSets, TLC, Json

CONSTANTS Classes, Level    \* Level: "quick", "thorough", or "cycles" (C01: only hierarchies with an inheritance cycle)

Aliases == {"X", "Y"}
Wrappers == {"plain", "array", "dict"}

VARIABLES parents,  \* [Classes -> SUBSET Classes]
          shared,   \* SUBSET Classes : classes that declare the field "fshared" besides their own field
          alias,    \* [Aliases -> Classes \cup Aliases]
          ty,       \* the type name the variable is annotated with
          wrap,
          layout,   \* how the class declarations are spread over files: "AB|C", "ABC" (one file), "A|B|C"
          where     \* where the wrapper is written: "type" = on the ---@type line (X[]), "alias" = in the alias that
                    \* names the class (---@alias X KA[] ... ---@type X); the variable is indexed either way

vars == <<parents, shared, alias, ty, wrap, layout, where>>

\* ancestors of a class, itself included (reflexive-transitive closure; terminates on cycles)
RECURSIVE Up(_, _)
Up(S, seen) == LET new == (UNION {parents[c] : c \in S}) \ seen
               IN IF new = {} THEN seen ELSE Up(new, seen \cup new)
Ancestors(c) == Up({c}, {c})

\* the class an alias chain ends in, or "none" for a cycle
RECURSIVE Resolve(_, _)
Resolve(t, seen) == IF t \in Classes THEN t
                    ELSE IF t \in seen THEN "none"
                    ELSE Resolve(alias[t], seen \cup {t})

Target == Resolve(ty, {})

OwnField(c) == "f_" \o c
Members == IF Target = "none" THEN {}
           ELSE {OwnField(c) : c \in Ancestors(Target)} \cup (IF Ancestors(Target) \cap shared # {} THEN {"fshared"} ELSE {})

\* which classes may be the declaring class of member m (go-to-definition may land on any of them)
Declarers(m) == IF Target = "none" THEN {}
                ELSE IF m = "fshared" THEN Ancestors(Target) \cap shared
                ELSE {c \in Ancestors(Target) : OwnField(c) = m}

DefaultAlias == [a \in Aliases |-> CHOOSE c \in Classes : TRUE]
AliasCfgs == IF Level = "thorough" THEN [Aliases -> Classes \cup Aliases]
             ELSE {a \in [Aliases -> Classes \cup Aliases] : a["Y"] \in {"X", "Y"} \/ a["X"] = "Y"} \cup {DefaultAlias}

HasCycle == \E c \in Classes : c \in UNION {Ancestors(p) : p \in parents[c]}

Init == /\ parents \in [Classes -> SUBSET Classes]
        /\ shared \in SUBSET Classes
        /\ alias \in AliasCfgs
        /\ ty \in Classes \cup Aliases
        /\ wrap \in Wrappers
        /\ where \in {"type", "alias"}
        /\ layout \in {"AB|C", "ABC", "A|B|C"}
        /\ (Level = "quick" /\ layout # "AB|C" => wrap = "plain" /\ shared = {} /\ ty \in Classes)
        /\ (Level = "cycles" => HasCycle /\ wrap = "plain" /\ shared = {} /\ ty \in Classes)
        /\ (where = "alias" => ty \in Aliases /\ wrap # "plain" /\ Resolve(ty, {}) # "none")
        \* aliases matter only when the variable is typed through one
        /\ (ty \in Classes => alias = DefaultAlias)
        /\ (Level = "quick" => (wrap = "plain" \/ shared = {}))
        /\ (Level = "quick" => Cardinality({<<c, d>> \in Classes \X Classes : d \in parents[c]}) <= 3)

Next == UNCHANGED vars

\* model facts
MembersMonotone == \A c \in Classes : OwnField(c) \in Members => c \in Ancestors(Target)
SelfMember == Target # "none" => OwnField(Target) \in Members
CycleSafe == Target \in Classes \cup {"none"}

Emit == PrintT("@@J " \o ToJson([fam |-> "classgraph", parents |-> parents, shared |-> shared, alias |-> alias, ty |-> ty, wrap |-> wrap, where |-> where, layout |-> layout,
                                 target |-> Target, members |-> Members,
                                 decl |-> [m \in Members |-> Declarers(m)]]))
=============================================================================
