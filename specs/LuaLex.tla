------------------------------- MODULE LuaLex -------------------------------
(***************************************************************************)
(* C04: where a token starts, in LSP coordinates.  The position layer of   *)
(* the lexical reference: a source line is a sequence of fragments (string *)
(* literals of every flavour wrapped in a call, long brackets, long and    *)
(* multi-line comments, tabs) followed by a statement that declares and    *)
(* uses the identifier `ent`.  Each fragment has a width in UTF-16 code     *)
(* units (escape sequences count as written, a character outside the BMP   *)
(* counts two units) and possibly line breaks inside; walking the          *)
(* fragments gives the reference (line, character) of every occurrence of  *)
(* the identifier.  TLC enumerates all prefixes up to MaxPrefix fragments,  *)
(* three line-ending styles and the entity kinds; the harness renders the  *)
(* text, asks the real server for every kind of range, and compares.       *)
(***************************************************************************)
EXTENDS Integers, Sequences, FiniteSets, TLC, Json

CONSTANTS MaxPrefix, Frags, Entities, Endings

\* [u |-> UTF-16 units the fragment adds to the current line (when it has no line break),
\*  nl |-> line breaks inside, tail |-> units on its last line (when nl > 0)]   -- wrapper text included
Shape(f) ==
  CASE f = "sp"  -> [u |-> 6 + 3 + 2, nl |-> 0, tail |-> 0]    \* print("s")_
    [] f = "sq"  -> [u |-> 6 + 3 + 2, nl |-> 0, tail |-> 0]    \* print('q')_
    [] f = "se"  -> [u |-> 6 + 6 + 2, nl |-> 0, tail |-> 0]    \* print("a\nb")_   escape as written: 2 units
    [] f = "sx"  -> [u |-> 6 + 9 + 2, nl |-> 0, tail |-> 0]    \* print("\x41\65")_
    [] f = "sb"  -> [u |-> 6 + 3 + 2, nl |-> 0, tail |-> 0]    \* print("e-acute")_   2 bytes, 1 unit
    [] f = "sc"  -> [u |-> 6 + 3 + 2, nl |-> 0, tail |-> 0]    \* print("CJK")_       3 bytes, 1 unit
    [] f = "sa"  -> [u |-> 6 + 4 + 2, nl |-> 0, tail |-> 0]    \* print("astral")_    4 bytes, 2 units
    [] f = "sl"  -> [u |-> 0, nl |-> 1, tail |-> 3 + 2]        \* print("l1\ EOL l2")_  line continuation inside a string
    [] f = "lb"  -> [u |-> 6 + 5 + 2, nl |-> 0, tail |-> 0]    \* print([[z]])_
    [] f = "lb1" -> [u |-> 6 + 7 + 2, nl |-> 0, tail |-> 0]    \* print([=[z]=])_
    [] f = "lbm" -> [u |-> 0, nl |-> 1, tail |-> 3 + 2]        \* print([[a EOL b]])_
    [] f = "lba" -> [u |-> 6 + 6 + 2, nl |-> 0, tail |-> 0]    \* print([[astral]])_
    [] f = "lc"  -> [u |-> 7 + 1, nl |-> 0, tail |-> 0]        \* --[[c]]_
    [] f = "lcb" -> [u |-> 7 + 1, nl |-> 0, tail |-> 0]        \* --[[e-acute]]_
    [] f = "lca" -> [u |-> 8 + 1, nl |-> 0, tail |-> 0]        \* --[[astral]]_
    [] f = "lcm" -> [u |-> 0, nl |-> 1, tail |-> 3 + 1]        \* --[[x EOL y]]_
    [] f = "tab" -> [u |-> 1, nl |-> 0, tail |-> 0]
    [] OTHER     -> [u |-> 0, nl |-> 0, tail |-> 0]

\* occurrences of `ent` in the entity statement: offsets from the start of the statement, and whether a second
\* line `print(ent)` can follow (the entity is visible at the top level)
Occs(e) ==
  CASE e = "local"  -> [offs |-> {6}, follow |-> TRUE]            \* local ent = 1
    [] e = "unused" -> [offs |-> {6}, follow |-> FALSE]           \* local ent = 1          (never read: type 4 at the declaration)
    [] e = "lfunc"  -> [offs |-> {15}, follow |-> TRUE]           \* local function ent() end
    [] e = "global" -> [offs |-> {0}, follow |-> TRUE]            \* ent = 1
    [] e = "gfunc"  -> [offs |-> {9}, follow |-> TRUE]            \* function ent() end
    [] e = "param"  -> [offs |-> {18, 30}, follow |-> FALSE]      \* local function fn(ent) return ent end
    [] e = "forvar" -> [offs |-> {4, 24}, follow |-> FALSE]       \* for ent = 1, 2 do print(ent) end
    [] e = "attr"   -> [offs |-> {6}, follow |-> TRUE]            \* local ent <const> = 1
    [] e = "attr2"  -> [offs |-> {18}, follow |-> TRUE]           \* local zq <const>, ent <const> = 1, 2
    [] e = "local2" -> [offs |-> {10}, follow |-> TRUE]           \* local zq, ent = 1, 2
    [] e = "forin2" -> [offs |-> {8, 34}, follow |-> FALSE]       \* for zq, ent in pairs({}) do print(ent) end
    \* a read of a name nobody defines: the only range that designates it is the undefined-variable diagnostic
    [] e = "undef"  -> [offs |-> {6}, follow |-> FALSE]           \* print(ent)
    [] e = "gundef" -> [offs |-> {9}, follow |-> FALSE]           \* print(_G.ent)
    \* a field of the table literal the file returns, reached from a second file through require
    [] e = "retfield" -> [offs |-> {9}, follow |-> FALSE]         \* return { ent = 1 }
    [] OTHER        -> [offs |-> {}, follow |-> FALSE]

VARIABLES prefix, ent, eol, line, col
vars == <<prefix, ent, eol, line, col>>

\* the file starts with one comment line, so the prefix starts on line 1 at character 0
Init == /\ prefix = <<>> /\ ent \in Entities /\ eol \in Endings /\ line = 1 /\ col = 0

Add(f) ==
    /\ Len(prefix) < MaxPrefix
    /\ prefix' = Append(prefix, f)
    /\ LET s == Shape(f) IN
       IF s.nl > 0 THEN line' = line + s.nl /\ col' = s.tail
                   ELSE line' = line /\ col' = col + s.u
    /\ UNCHANGED <<ent, eol>>

Next == \E f \in Frags : Add(f)

\* reference positions of every occurrence of the identifier (3 units long)
Positions == {[l |-> line, c |-> col + o] : o \in Occs(ent).offs}
             \cup (IF Occs(ent).follow THEN {[l |-> line + 1, c |-> 6]} ELSE {})
DeclPos == [l |-> line, c |-> col + (CHOOSE o \in Occs(ent).offs : \A p \in Occs(ent).offs : o <= p)]

\* model facts: positions never go backwards, a fragment without a line break never changes the line
ColNonNeg == col >= 0 /\ line >= 1

Emit == PrintT("@@J " \o ToJson([fam |-> "lex", prefix |-> prefix, ent |-> ent, eol |-> eol, decl |-> DeclPos, occs |-> Positions]))
=============================================================================
