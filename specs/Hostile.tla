------------------------------ MODULE Hostile ------------------------------
(***************************************************************************)
(* C01, content generators.  "Arbitrary bytes" is explored through         *)
(* structure: every string up to MaxLen over the byte classes the lexer    *)
(* distinguishes (quotes, backslash, long-bracket characters, minus, both  *)
(* line-break bytes, digit / hex / exponent / dot, a letter, NUL, and      *)
(* UTF-8 lead / continuation / invalid bytes), and annotation blocks whose  *)
(* aliases and classes refer to each other in every way (cycles through     *)
(* array, map, function-return and union wrappers).  TLC enumerates both   *)
(* families; the harness turns each into a workspace and a session of       *)
(* requests at the positions of interest.                                   *)
(***************************************************************************)
EXTENDS Integers, Sequences, FiniteSets, TLC, Json

CONSTANTS Mode,      \* "bytes" or "annot"
          Classes,   \* byte classes (strings)
          MaxLen

VARIABLES s, a1, a2, par, use
vars == <<s, a1, a2, par, use>>

\* ---- annotation shapes: alias A1 -> F1(T1), alias A2 -> F2(T2), class K : parents, variable v : A1 used in some way
Forms == {"plain", "arr", "dict", "funret", "union", "paren"}
Targets == {"A1", "A2", "K", "string"}
ParentSets == {{}, {"K"}, {"A1"}, {"K", "A2"}}
Uses == {"field", "index", "key", "call", "forin", "callfield", "indexindex"}

Init == IF Mode = "bytes"
        THEN s = <<>> /\ a1 = <<>> /\ a2 = <<>> /\ par = {} /\ use = ""
        ELSE /\ s = <<>>
             /\ a1 \in Forms \X Targets /\ a2 \in Forms \X Targets
             /\ par \in ParentSets /\ use \in Uses

Next == /\ Mode = "bytes" /\ Len(s) < MaxLen
        /\ \E c \in Classes : s' = Append(s, c)
        /\ UNCHANGED <<a1, a2, par, use>>

\* at least one alias refers to an alias (otherwise nothing can cycle)
Interesting == Mode = "bytes" \/ a1[2] \in {"A1", "A2"} \/ a2[2] \in {"A1", "A2"} \/ par # {}

Emit == IF Mode = "bytes"
        THEN (IF s # <<>> THEN PrintT("@@J " \o ToJson([fam |-> "bytes", s |-> s])) ELSE TRUE)
        ELSE (IF Interesting THEN PrintT("@@J " \o ToJson([fam |-> "annot", a1 |-> a1, a2 |-> a2, par |-> par, use |-> use])) ELSE TRUE)
=============================================================================
