------------------------------ MODULE Patterns ------------------------------
(***************************************************************************)
(* C20: the local, purely syntactic checks fire exactly where their        *)
(* documented pattern occurs.  A bounded language of instances: each is    *)
(* one statement (rendered on one line) of a pattern family, with operands  *)
(* drawn from small sets, placed in one of several contexts (top level,    *)
(* inside a function, inside a nested block) and, for expressions, table   *)
(* constructors and parameter lists, at one of several places inside the   *)
(* statement (call argument, condition, constructor field, return value,   *)
(* index, anonymous function ...).  For every instance the                 *)
(* documented rule gives                                                   *)
(*   must    : the diagnostic types that must be reported on that line,    *)
(*             each exactly once                                           *)
(*   mustnot : the pattern types that must not be reported on that line    *)
(* Types in neither set are left open (near-misses the documentation does   *)
(* not settle: parenthesised or call operands, [1] vs "1" keys, ...).      *)
(* The rules are written from docs/manual/config.md and the property        *)
(* statement, not from the code.                                           *)
(***************************************************************************)
EXTENDS Integers, Sequences, FiniteSets, TLC, Json

CONSTANTS Contexts       \* e.g. {"top", "func", "block"}

PatTypes == {5, 7, 8, 13, 14, 15, 16, 19, 20, 21}

\* simple operands: names and literals whose identity is beyond doubt
Names == {"x", "y"}
Lits == {"1", "\"s\"", "true"}
Simple == Names \cup Lits
\* operands whose comparison the documentation does not settle
Open == {"(x)", "f()", "x.k"}
Operands == Simple \cup Open

CmpOps == {"==", "~=", "<", "<=", ">", ">=", "and", "or"}

\* ---- families: each yields records [fam, text pieces..., must, mustnot]

\* table constructor with two keyed fields: duplicate key (5)
Keys == {"a", "b", "[\"a\"]", "[1]", "[\"1\"]"}
KeyName(k) == CASE k = "a" -> "a" [] k = "b" -> "b" [] k = "[\"a\"]" -> "a" [] k = "[1]" -> "#1" [] k = "[\"1\"]" -> "1"
DupKey == {[fam |-> "dupkey", a |-> k1, b |-> k2, op |-> "",
            must |-> IF KeyName(k1) = KeyName(k2) THEN {5} ELSE {},
            mustnot |-> IF KeyName(k1) # KeyName(k2) /\ ~({k1, k2} = {"[1]", "[\"1\"]"}) THEN {5} ELSE {}] : k1 \in Keys, k2 \in Keys}

\* assignment x, y = values   /   local x, y = values : count mismatch (7 / 8)
\* nt targets, nv values, last value single-valued ("1") or multi-valued ("f()")
Arity == {[fam |-> f, a |-> ToString(nt), b |-> ToString(nv), op |-> last,
           must |-> IF last = "1" /\ nt # nv THEN {IF f = "assign" THEN 7 ELSE 8} ELSE {},
           mustnot |-> IF nt = nv \/ (last = "f()" /\ nv <= nt) THEN {7, 8} ELSE {}] :
              f \in {"assign", "localdef"}, nt \in 1..3, nv \in 1..3, last \in {"1", "f()"}}

\* function parameter list: duplicate names (13); "_" may repeat
Params == {"p", "q", "_"}
DupParam == {[fam |-> "params", a |-> p1, b |-> p2, op |-> p3,
              must |-> IF \E n \in {"p", "q"} : Cardinality({i \in 1..3 : <<p1, p2, p3>>[i] = n}) >= 2 THEN {13} ELSE {},
              \* every repeated occurrence is one place where the pattern occurs
              times |-> IF p1 = p2 /\ p2 = p3 /\ p1 # "_" THEN 2 ELSE 1,
              mustnot |-> IF \A n \in {"p", "q"} : Cardinality({i \in 1..3 : <<p1, p2, p3>>[i] = n}) <= 1 THEN {13} ELSE {}] :
                 p1 \in Params, p2 \in Params, p3 \in Params}

\* binary expression with identical operands (14); x or true / true or x (15); x and false (16); == float (21)
BinExp == {[fam |-> "binexp", a |-> l, b |-> r, op |-> o,
            must |-> (IF l = r /\ l \in Names THEN {14} ELSE {})
                     \cup (IF o = "or" /\ "true" \in {l, r} /\ l # r THEN {15} ELSE {}),
            mustnot |-> (IF l # r /\ l \in Simple /\ r \in Simple THEN {14} ELSE {})
                        \cup (IF o # "or" \/ ~("true" \in {l, r}) THEN {15} ELSE {})
                        \cup {16, 21}] : l \in Operands, r \in Operands, o \in CmpOps}

AndFalse == {[fam |-> "andfalse", a |-> l, b |-> r, op |-> o,
              must |-> IF o = "and" /\ r = "false" THEN {16} ELSE {},
              mustnot |-> (IF o # "and" THEN {16} ELSE {}) \cup {15, 21}] : l \in Names, r \in {"false", "y"}, o \in {"and", "or"}}

FloatEq == {[fam |-> "floateq", a |-> l, b |-> r, op |-> o,
             must |-> IF o \in {"==", "~="} /\ "1.5" \in {l, r} /\ l # r THEN {21} ELSE {},
             mustnot |-> (IF ~(o \in {"==", "~="}) \/ ~("1.5" \in {l, r}) THEN {21} ELSE {}) \cup {15, 16}] :
                l \in {"x", "1.5", "2"}, r \in {"x", "1.5", "2"}, o \in {"==", "~=", "<", "+"}}

\* if c1 then elseif c2 then end : repeated condition (19)
\* (x < 1 / x > 1 / x <= 1: the same operands under different operators are different conditions)
Conds == {"x == 1", "x == 2", "y", "x", "x < 1", "x > 1"}
DupIf == {[fam |-> "dupif", a |-> c1, b |-> c2, op |-> c3,
           must |-> IF Cardinality({c1, c2, c3}) < 3 THEN {19} ELSE {},
           times |-> IF Cardinality({c1, c2, c3}) = 1 THEN 2 ELSE 1,
           mustnot |-> IF Cardinality({c1, c2, c3}) = 3 THEN {19} ELSE {}] : c1 \in Conds, c2 \in Conds, c3 \in Conds}

\* self assignment (20): x = x ; x, y = x, y ; not x, y = y, x ; not x = y
V3 == {"x", "y", "z"}
SelfAssign == {[fam |-> "selfassign", a |-> l, b |-> r, op |-> "",
                must |-> IF l = r THEN {20} ELSE {},
                mustnot |-> IF l # r THEN {20} ELSE {}] :
                   l \in {"x", "x, y"}, r \in {"x", "y", "x, y", "y, x"}}
              \* every target must be assigned itself: one identical pair among differing ones is not the pattern
              \cup {[fam |-> "selfassign", a |-> "x, y", b |-> p \o ", " \o q, op |-> "",
                     must |-> IF <<p, q>> = <<"x", "y">> THEN {20} ELSE {},
                     mustnot |-> IF <<p, q>> # <<"x", "y">> THEN {20} ELSE {}] : p \in V3, q \in V3}
              \cup {[fam |-> "selfassign", a |-> "x, y, z", b |-> p \o ", " \o q \o ", " \o w, op |-> "",
                     must |-> IF <<p, q, w>> = <<"x", "y", "z">> THEN {20} ELSE {},
                     mustnot |-> IF <<p, q, w>> # <<"x", "y", "z">> THEN {20} ELSE {}] : p \in V3, q \in V3, w \in V3}

\* chains: x or true or true is (x or true) or true -- the pattern occurs once per link, all starting at the same
\* column and ending at different ones; likewise x and false and false
Chain == {[fam |-> "chain", a |-> "x", b |-> ToString(n), op |-> o,
           must |-> IF o = "or" THEN {15} ELSE {16}, times |-> n,
           mustnot |-> (IF o = "or" THEN {16} ELSE {15}) \cup {21}] : o \in {"or", "and"}, n \in 2..3}

\* indexed operands: t[1] and t[2] (or t[x] and t[y]) are different expressions whatever the table holds; the same index
\* twice is left open like the other composite operands
Idx == {"t[1]", "t[2]", "t[x]", "t[y]", "t[x + 1]", "t[x - 1]"}
IdxExp == {[fam |-> "idxexp", a |-> l, b |-> r, op |-> o,
            must |-> {}, mustnot |-> (IF l # r THEN {14} ELSE {}) \cup {15, 16, 21}] : l \in Idx, r \in Idx, o \in {"==", "~=", "<=", "or", "and"}}

Instances == IdxExp \cup DupKey \cup Arity \cup DupParam \cup BinExp \cup AndFalse \cup FloatEq \cup DupIf \cup SelfAssign \cup Chain

\* where the instance's expression / constructor / parameter list is planted inside its statement
\* ("surplus": the value beyond the names of a local declaration -- local s = 1, <here> -- which is itself an instance of
\* check 8, and still a place where the other patterns occur)
ECtx(f) == CASE f \in {"binexp", "andfalse", "floateq", "chain", "idxexp"} -> {"arg", "cond", "while", "tbl", "ret", "index", "surplus"}
             [] f = "dupkey" -> {"local", "arg", "ret", "surplus"}
             [] f = "params" -> {"lfunc", "anon", "arg", "gfunc", "surplus"}
             [] OTHER -> {"stmt"}

VARIABLES inst, ctx, ectx
vars == <<inst, ctx, ectx>>
Init == inst \in Instances /\ ctx \in Contexts /\ ectx \in ECtx(inst.fam)
Next == UNCHANGED vars

\* model facts: the two obligations never contradict each other, and only pattern types are mentioned
Consistent == inst.must \cap inst.mustnot = {} /\ inst.must \cup inst.mustnot \subseteq PatTypes

Times == IF "times" \in DOMAIN inst THEN inst.times ELSE 1

Emit == PrintT("@@J " \o ToJson([fam |-> inst.fam, a |-> inst.a, b |-> inst.b, op |-> inst.op, ctx |-> ctx, ectx |-> ectx,
                                 must |-> inst.must, times |-> Times, mustnot |-> inst.mustnot]))
=============================================================================
