------------------------------ MODULE Dispatch ------------------------------
(***************************************************************************)
(* C10: the request dispatcher and the server's lock discipline.           *)
(*                                                                         *)
(* Dispatch rule transcribed from jrpc2 v0.13.1 (server.go): messages are  *)
(* read in order; a message is admitted only after every notification     *)
(* issued before it has finished (waitForBarrier); an admitted message     *)
(* runs in its own goroutine behind a semaphore of Concurrency slots.      *)
(* Hence notifications never overlap each other, but a request overlaps    *)
(* later requests and later notifications.                                 *)
(*                                                                         *)
(* Handler bodies are abstracted to their footprint on the shared          *)
(* structures.  The tables Lock[k] and Acc[k] are NOT written by hand:     *)
(* module DispatchTables is generated from the current source tree on      *)
(* every run (binding B3, go/ast: which handlers take requestMutex, from   *)
(* where, and which structures they read/write, transitively).             *)
(*                                                                         *)
(* TLC explores every client script of up to MaxMsgs messages and every    *)
(* interleaving, checks mutual exclusion, the semaphore bound, the         *)
(* notification order and termination, and reports (a) which pairs of      *)
(* message kinds can be in flight together and (b) for which of them two   *)
(* conflicting accesses to one structure are not both under the mutex      *)
(* (NoRace fails).  Both sets are then confronted with the real binary     *)
(* under the Go race detector.                                             *)
(***************************************************************************)
EXTENDS Integers, Sequences, FiniteSets, TLC, Json, DispatchTables

CONSTANTS MaxMsgs, Concurrency, ScriptKinds   \* ScriptKinds: the message kinds scripts are built from

VARIABLES script,  \* the client's messages, in send order (sequence of kinds)
          pc,      \* pc[i] \in {"new", "pre", "want", "cs", "post", "run", "done"} for message i
          owner    \* index of the invocation holding requestMutex, 0 = free

vars == <<script, pc, owner>>

N == Len(script)
Idx == 1..N
Kind(i) == script[i]
Active(i) == pc[i] \in {"pre", "want", "cs", "run", "post"}
HasBare(k) == \E a \in Acc[k] : a.bare
Running == {i \in Idx : Active(i)}

Init == /\ script \in UNION {[1..n -> ScriptKinds] : n \in 1..MaxMsgs}
        /\ pc = [i \in 1..Len(script) |-> "new"]
        /\ owner = 0

\* message i is admitted: all earlier messages admitted, all earlier notifications finished, a slot is free
Admit(i) ==
    /\ pc[i] = "new"
    /\ \A j \in 1..(i-1) : pc[j] # "new" /\ (IsNtf[Kind(j)] => pc[j] = "done")
    /\ Cardinality(Running) < Concurrency
    /\ pc' = [pc EXCEPT ![i] = IF Lock[Kind(i)] = "none" THEN "run"
                               ELSE IF HasBare(Kind(i)) THEN "pre"     \* accesses outside the critical section
                               ELSE "want"]
    /\ UNCHANGED <<script, owner>>

\* the bare prefix of a handler that locks late is over
PreDone(i) == /\ pc[i] = "pre" /\ pc' = [pc EXCEPT ![i] = "want"] /\ UNCHANGED <<script, owner>>

Acquire(i) == /\ pc[i] = "want" /\ owner = 0
              /\ pc' = [pc EXCEPT ![i] = "cs"] /\ owner' = i /\ UNCHANGED script

\* leaving the critical section: a handler that also touches shared state outside it (before taking the mutex or after
\* releasing it explicitly) runs a bare epilogue
Finish(i) == /\ pc[i] \in {"cs", "run", "post"}
             /\ pc' = [pc EXCEPT ![i] = IF pc[i] = "cs" /\ HasBare(Kind(i)) THEN "post" ELSE "done"]
             /\ owner' = IF owner = i THEN 0 ELSE owner
             /\ UNCHANGED script

AllDone == \A i \in Idx : pc[i] = "done"

Next == \/ \E i \in Idx : Admit(i) \/ PreDone(i) \/ Acquire(i) \/ Finish(i)
        \/ (AllDone /\ UNCHANGED vars)

Spec == Init /\ [][Next]_vars /\ WF_vars(Next)

----------------------------------------------------------------------------
(* Safety of the dispatcher + lock design *)

MutualExclusion == Cardinality({i \in Idx : pc[i] = "cs"}) <= 1 /\ (owner # 0 => pc[owner] = "cs")
SemBound == Cardinality(Running) <= Concurrency
NtfOrder == \A i, j \in Idx : (i < j /\ IsNtf[Kind(i)] /\ IsNtf[Kind(j)]) => ~(Active(i) /\ Active(j))
\* a request never runs before an earlier notification has finished
BarrierOK == \A i, j \in Idx : (i < j /\ IsNtf[Kind(i)] /\ Active(j)) => pc[i] = "done"
Terminates == <>[]AllDone

----------------------------------------------------------------------------
(* Races: the accesses an invocation may be performing in its current phase *)

AccNow(i) ==
    CASE pc[i] \in {"pre", "post"} -> {a \in Acc[Kind(i)] : a.bare}
      [] pc[i] = "cs"  -> {a \in Acc[Kind(i)] : ~a.bare}
      [] pc[i] = "run" -> Acc[Kind(i)]
      [] OTHER         -> {}

Conflict(i, j) ==
    {a.s : a \in {x \in AccNow(i) : \E y \in AccNow(j) : x.s = y.s /\ (x.w \/ y.w) /\ (x.bare \/ y.bare)}}

NoRace == \A i, j \in Idx : i < j => Conflict(i, j) = {}

\* output: the pairs that can be in flight together, and the structures they may race on (empty set = safe pair)
\* (in flight together = both admitted and not finished, whether running or waiting for the mutex)
Overlaps == {<<i, j>> \in Idx \X Idx : i < j /\ Active(i) /\ Active(j)}

Emit ==
    IF Overlaps = {} THEN TRUE
    ELSE PrintT("@@J " \o ToJson([fam |-> "dispatch",
            pairs |-> {[a |-> Kind(p[1]), b |-> Kind(p[2]), race |-> Conflict(p[1], p[2])] : p \in Overlaps}]))
=============================================================================
