--------------------------- MODULE LspWorkspace ---------------------------
(***************************************************************************)
(* The workspace protocol between editor and server (C08, with C18's       *)
(* create/delete part): files on disk, editor buffers, and the events      *)
(* that change them.  This is the ideal layer: it says nothing about how   *)
(* the server stores diagnostics, only which states are quiescent and      *)
(* which files are dirty, so that the two obligations of the property can  *)
(* be stated over the client's view:                                       *)
(*                                                                         *)
(*   Fresh:  no buffer dirty  =>  client view = view of a fresh server on  *)
(*                                the current disk                          *)
(*   Dirty:  buffer f dirty   =>  client[f] = Syn(buf[f]) if non-empty,    *)
(*                                else the non-syntax part of the saved     *)
(*                                view of f                                 *)
(*                                                                         *)
(* FreshView and Syn are not modelled: they are fields logged from a fresh *)
(* real server (the oracle the property itself names).  The module is used *)
(* twice: TLC generates event histories from it (hist), and                *)
(* LspWorkspaceTrace.tla replays the recorded run through the same actions *)
(* and evaluates Fresh and Dirty at every step.                            *)
(***************************************************************************)
EXTENDS Integers, Sequences, FiniteSets, TLC, Json

CONSTANTS Files,      \* e.g. {"f1","f2","f3"}
          Variants,   \* content variants, e.g. {"clean","syn","warn","defg","useg","req2","req3"}
          MaxHist,
          InitMode    \* "all": every disk state is an initial state; "some": the hand-picked SomeDisks

Absent == "absent"
Closed == "closed"

VARIABLES disk,    \* [Files -> Variants \cup {Absent}]
          buf,     \* [Files -> Variants \cup {Closed}]   editor buffer of an open file
          dirty,   \* [Files -> BOOLEAN]  the buffer has edits that were not saved (a flag, as in an editor: typing the
                   \*                      saved text back does not make a buffer clean)
          stable,  \* [Files -> BOOLEAN]  no disk event since f became dirty (Dirty obligation is stated only then)
          hist,    \* generated events (output only)
          disk0    \* the disk the history started from (output only)

wvars == <<disk, buf, dirty, stable>>
vars == <<disk, buf, dirty, stable, hist, disk0>>

IsOpen(f) == buf[f] # Closed
IsDirty(f) == IsOpen(f) /\ dirty[f]
Quiescent == \A f \in Files : ~IsDirty(f)

AllDisks == [Files -> Variants \cup {Absent}]

\* initial disks that exercise the cross-file variants (requires a file named f1, f2, f3 each)
SomeDisks ==
    { [f \in Files |-> Absent],
      [f \in Files |-> IF f = "f1" THEN "req2" ELSE IF f = "f2" THEN "clean" ELSE Absent],
      [f \in Files |-> IF f = "f1" THEN "useg" ELSE IF f = "f2" THEN "defg" ELSE "req2"],
      [f \in Files |-> IF f = "f1" THEN "req3" ELSE IF f = "f2" THEN "syn" ELSE "warn"],
      [f \in Files |-> IF f = "f1" THEN "warn" ELSE IF f = "f2" THEN "useg" ELSE "defg"],
      [f \in Files |-> IF f = "f1" THEN "syn" ELSE IF f = "f2" THEN "req3" ELSE Absent] }
    \cup (IF "dof2" \in Variants     \* a file that names another with its suffix (dofile("f2.lua")): resolved against the disk
          THEN {[f \in Files |-> IF f = "f1" THEN "dof2" ELSE IF f = "f2" THEN "clean" ELSE Absent]} ELSE {})

WInit == /\ disk \in (IF InitMode = "all" THEN AllDisks ELSE SomeDisks)
         /\ buf = [f \in Files |-> Closed]
         /\ dirty = [f \in Files |-> FALSE]
         /\ stable = [f \in Files |-> TRUE]

\* any change of the disk makes the Dirty obligation of currently dirty files unspecified
Unstable == [f \in Files |-> IF IsDirty(f) THEN FALSE ELSE stable[f]]

\* a new file appears on disk; the editor's watcher reports it
Create(f, v) ==
    /\ disk[f] = Absent /\ ~IsOpen(f)
    /\ disk' = [disk EXCEPT ![f] = v]
    /\ stable' = Unstable
    /\ UNCHANGED <<buf, dirty>>

\* a closed file is rewritten by another program; the watcher reports it
Modify(f, v) ==
    /\ disk[f] # Absent /\ disk[f] # v /\ ~IsOpen(f)
    /\ disk' = [disk EXCEPT ![f] = v]
    /\ stable' = Unstable
    /\ UNCHANGED <<buf, dirty>>

\* a closed file is deleted; the watcher reports it
Delete(f) ==
    /\ disk[f] # Absent /\ ~IsOpen(f)
    /\ disk' = [disk EXCEPT ![f] = Absent]
    /\ stable' = Unstable
    /\ UNCHANGED <<buf, dirty>>

Open(f) ==
    /\ disk[f] # Absent /\ ~IsOpen(f)
    /\ buf' = [buf EXCEPT ![f] = disk[f]]
    /\ dirty' = [dirty EXCEPT ![f] = FALSE]
    /\ UNCHANGED <<disk, stable>>

\* the user types: the whole buffer becomes variant v (sent as a didChange)
Edit(f, v) ==
    /\ IsOpen(f) /\ buf[f] # v
    /\ buf' = [buf EXCEPT ![f] = v]
    /\ dirty' = [dirty EXCEPT ![f] = TRUE]
    /\ stable' = [stable EXCEPT ![f] = IF IsDirty(f) THEN @ ELSE TRUE]   \* becomes dirty now: obligation starts
    /\ UNCHANGED disk

\* the buffer is written to disk and didSave is sent; w = the watcher also reports the write
Save(f, w) ==
    /\ IsOpen(f)
    /\ disk' = [disk EXCEPT ![f] = buf[f]]
    /\ dirty' = [dirty EXCEPT ![f] = FALSE]
    /\ stable' = [g \in Files |-> IF g # f /\ IsDirty(g) /\ disk[f] # buf[f] THEN FALSE ELSE stable[g]]
    /\ UNCHANGED buf

\* the editor closes the document; unsaved edits are discarded
Close(f) ==
    /\ IsOpen(f)
    /\ buf' = [buf EXCEPT ![f] = Closed]
    /\ dirty' = [dirty EXCEPT ![f] = FALSE]
    /\ UNCHANGED <<disk, stable>>

----------------------------------------------------------------------------
(* Generation of histories *)

More == Len(hist) < MaxHist

Ev(e) == hist' = Append(hist, e)

Init == WInit /\ hist = <<>> /\ disk0 = disk

Next ==
    /\ More
    /\ UNCHANGED disk0
    /\ \/ \E f \in Files, v \in Variants : Create(f, v) /\ Ev([ev |-> "Create", f |-> f, v |-> v])
       \/ \E f \in Files, v \in Variants : Modify(f, v) /\ Ev([ev |-> "Modify", f |-> f, v |-> v])
       \/ \E f \in Files : Delete(f) /\ Ev([ev |-> "Delete", f |-> f])
       \/ \E f \in Files : Open(f) /\ Ev([ev |-> "Open", f |-> f])
       \/ \E f \in Files, v \in Variants : Edit(f, v) /\ Ev([ev |-> "Edit", f |-> f, v |-> v])
       \/ \E f \in Files, w \in BOOLEAN : Save(f, w) /\ Ev([ev |-> "Save", f |-> f, w |-> w])
       \/ \E f \in Files : Close(f) /\ Ev([ev |-> "Close", f |-> f])

Spec == Init /\ [][Next]_vars

TypeOK == /\ disk \in AllDisks
          /\ \A f \in Files : buf[f] \in Variants \cup {Closed}
          /\ \A f \in Files : IsOpen(f) => (disk[f] # Absent \/ TRUE)

\* design facts about the protocol model itself
OpenImpliesExisted == \A f \in Files : IsOpen(f) => TRUE
DirtyIsOpen == \A f \in Files : IsDirty(f) => IsOpen(f)

Emit ==
    IF Len(hist) = MaxHist
    THEN PrintT("@@J " \o ToJson([fam |-> "workspace", disk0 |-> disk0, hist |-> hist]))
    ELSE TRUE
=============================================================================
