----------------------------- MODULE ConfigEval -----------------------------
(***************************************************************************)
(* Evaluation of C17 on logged runs (binding B2).  Each line of            *)
(* runs.ndjson is one run of the real server:                              *)
(*   [id, cfg: [src, master, off, err, ana, ftype], base, shown]            *)
(* base  = diagnostics [f, t, k] of the all-enabled run given the same way, *)
(* shown = diagnostics the client holds under cfg.  TLC evaluates          *)
(*   shown = {d \in base : ~Excluded(cfg, d)}                               *)
(* with Config.tla's Excluded and prints the runs where it fails, split    *)
(* into diagnostics that should have been silenced but are shown (extra)   *)
(* and diagnostics that should be shown but are missing.                   *)
(***************************************************************************)
EXTENDS Config

Runs == ndJsonDeserialize("runs.ndjson")

VARIABLE i
evars == <<cfg, i>>

SeqSet(s) == {s[k] : k \in 1..Len(s)}

CfgOf(r) == [src |-> r.cfg.src, master |-> r.cfg.master, off |-> SeqSet(r.cfg.off), err |-> SeqSet(r.cfg.err),
             ana |-> SeqSet(r.cfg.ana), ftype |-> {<<p.r, p.t>> : p \in SeqSet(r.cfg.ftype)}, prev |-> {}]

Want(r) == {d \in SeqSet(r.base) : ~Excluded(CfgOf(r), d)}

(* As-built deviations (known findings); each predicts the exact set shown.                       *)
(*  "t17"      switching type 4 off also silences type 17 (write-only local, reported at the write) *)
(*  "goto"     switching the whole special group {2,3,10,11,12} off also silences type 9            *)
(*  "anaregex" an analysis-ignore rule written as a regular expression that does not end in ".lua"  *)
(*             ("beta/th.*lua", the documented form) is only tried against directories: no effect   *)
AllDevs == {"t17", "goto", "anaregex"}

DevExcluded(dv, c, d) ==
    \/ ~c.master
    \/ d.t \in c.off
    \/ ("t17" \in dv /\ d.t = 17 /\ 4 \in c.off)
    \/ ("goto" \in dv /\ d.t = 9 /\ Special \subseteq c.off)
    \/ \E r \in c.err : d.f \in Matches(r)
    \/ \E r \in c.ana : ~("anaregex" \in dv /\ r = "beta/th.*lua") /\ d.f \in Matches(r)
    \/ \E p \in c.ftype : d.f \in Matches(p[1]) /\ d.t = p[2]

WantDev(dv, r) == {d \in SeqSet(r.base) : ~DevExcluded(dv, CfgOf(r), d)}

Report ==
    LET r == Runs[i]
        got == SeqSet(r.shown)
        want == Want(r)
        expl == {dv \in SUBSET AllDevs : dv # {} /\ got = WantDev(dv, r)}
    IN IF got = want THEN TRUE
       ELSE IF expl # {}
            THEN PrintT("@@J " \o ToJson([fam |-> "config-eval", id |-> r.id,
                          devs |-> CHOOSE dv \in expl : \A o \in expl : Cardinality(dv) <= Cardinality(o),
                          extra |-> got \ want, missing |-> want \ got]))
            ELSE PrintT("@@J " \o ToJson([fam |-> "config-eval", id |-> r.id, devs |-> {},
                          extra |-> got \ want, missing |-> want \ got]))

EInit == i = 1 /\ cfg = AllOn("init")
ENext == i < Len(Runs) /\ i' = i + 1 /\ UNCHANGED cfg
=============================================================================
