------------------------------ MODULE Project ------------------------------
(***************************************************************************)
(* Project mode.  A luahelper.json may name entry files (ProjectFiles); the *)
(* server then analyses each entry together with everything it requires,   *)
(* transitively, as one project, in a pass of its own.  None of the listed *)
(* properties depends on that mode: which declaration a name denotes, which *)
(* occurrences belong to a global, what completion offers and which reads  *)
(* are undefined are facts about the workspace.  So on a workspace whose    *)
(* entry file reaches every file, the answers with the configuration and   *)
(* without it must coincide.                                               *)
(*                                                                         *)
(* A behaviour builds the require statements of four files, one statement  *)
(* at a time: main (the entry) and a, b, c.  Every file also defines one    *)
(* plain global, one _G global and one global function, and reads the       *)
(* globals of all files (rendered by the harness).  Only workspaces in      *)
(* which main reaches every file are emitted: then project mode and plain  *)
(* mode are two routes to the same answers, and the harness compares them. *)
(* The require graph may contain shared modules (diamonds), chains, cycles *)
(* and repeated requires: the shapes that the project scan must handle.    *)
(***************************************************************************)
EXTENDS Integers, Sequences, FiniteSets, TLC, Json

CONSTANTS MaxReq     \* total number of require statements

Files == {"main", "a", "b", "c"}

VARIABLES req     \* [Files -> Seq(Files)] : the modules each file requires, in order

vars == <<req>>

Total == Len(req["main"]) + Len(req["a"]) + Len(req["b"]) + Len(req["c"])

Init == req = [f \in Files |-> <<>>]

\* file f requires g (not itself; main is required by nobody: it is the entry)
AddReq(f, g) ==
    /\ Total < MaxReq
    /\ g # f /\ g # "main"
    /\ Len(req[f]) < 3
    /\ req' = [req EXCEPT ![f] = Append(@, g)]

Next == \E f \in Files, g \in Files : AddReq(f, g)

Spec == Init /\ [][Next]_vars

\* files reachable from the entry
RECURSIVE Reach(_)
Reach(S) == LET N == S \cup UNION {{req[f][i] : i \in 1..Len(req[f])} : f \in S}
            IN IF N = S THEN S ELSE Reach(N)
Members == Reach({"main"})

Covered == Members = Files

\* model facts: the entry is always a member; membership only grows with more requires
EntryMember == "main" \in Members
TypeOK == Total <= MaxReq /\ \A f \in Files : Len(req[f]) <= 3

\* shapes worth naming in the evidence
Shared == \E g \in Files : Cardinality({f \in Files : \E i \in 1..Len(req[f]) : req[f][i] = g}) >= 2
Repeated == \E f \in Files : \E i, j \in 1..Len(req[f]) : i # j /\ req[f][i] = req[f][j]

Emit == IF Covered
        THEN PrintT("@@J " \o ToJson([fam |-> "project", req |-> req, shared |-> Shared, repeated |-> Repeated]))
        ELSE TRUE
=============================================================================
