------------------------------ MODULE Project ------------------------------
(***************************************************************************)
(* Project mode.  A luahelper.json may name entry files (ProjectFiles); the *)
(* server then analyses each entry together with everything it requires,   *)
(* transitively, as one project, in a pass of its own.  None of the listed *)
(* properties depends on that mode: which declaration a name denotes, which *)
(* occurrences belong to a global, what completion offers and which reads  *)
(* are undefined are facts about the workspace.  So on a workspace whose    *)
(* entry file reaches every file, the answers with the configuration and   *)
(* without it must coincide.                                               *)
(*                                                                         *)
(* A behaviour builds the require statements of four files, one statement  *)
(* at a time: main (the entry) and a, b, c.  Every file also defines one    *)
(* plain global, one _G global and one global function, and reads the       *)
(* globals of all files (rendered by the harness).  Only workspaces in      *)
(* which main reaches every file are emitted: then project mode and plain  *)
(* mode are two routes to the same answers, and the harness compares them. *)
(* The require graph may contain shared modules (diamonds), chains, cycles *)
(* and repeated requires: the shapes that the project scan must handle.    *)
(***************************************************************************)
EXTENDS Integers, Sequences, FiniteSets, TLC, Json, SequencesExt

CONSTANTS MaxReq     \* total number of require statements

Files == {"main", "a", "b", "c", "t"}
\* t is a scattered file: nobody requires it, so it never belongs to the project; it may require project files
Proj == Files \ {"t"}

VARIABLES req     \* [Files -> Seq(Files)] : the modules each file requires, in order

vars == <<req>>

Total == Len(req["main"]) + Len(req["a"]) + Len(req["b"]) + Len(req["c"]) + Len(req["t"])

Init == req = [f \in Files |-> <<>>]

\* file f requires g (not itself; main is required by nobody: it is the entry)
AddReq(f, g) ==
    /\ Total < MaxReq
    /\ g # f /\ g \notin {"main", "t"}
    /\ Len(req[f]) < (IF f = "t" THEN 2 ELSE 3)
    /\ req' = [req EXCEPT ![f] = Append(@, g)]

Next == \E f \in Files, g \in Files : AddReq(f, g)

Spec == Init /\ [][Next]_vars

\* files reachable from the entry
RECURSIVE Reach(_)
Reach(S) == LET N == S \cup UNION {{req[f][i] : i \in 1..Len(req[f])} : f \in S}
            IN IF N = S THEN S ELSE Reach(N)
Members == Reach({"main"})
\* what the scattered file pulls in: itself and everything it requires, transitively
Incl == Reach({"t"})

Covered == Members = Proj

(***************************************************************************)
(* Load order.  As built, the project pass is not a workspace-wide lookup   *)
(* but an execution-order analysis: it walks the entry file, enters a       *)
(* required file at its first require statement (a file already entered is *)
(* not entered again), and a top-level read sees only the globals whose     *)
(* defining statements have been passed by then.  Every file here has the   *)
(* shape  requires ; definitions ; reads  , so what the reads of f see is   *)
(* the set of files whose definitions were passed when f's reads are        *)
(* reached: f itself and every file completed earlier.  A file still being  *)
(* walked further up the require chain (an ancestor of f) has not reached   *)
(* its definitions yet.                                                     *)
(***************************************************************************)
\* walk state: entered files, completed files in order, modules whose require statement has returned, and what each
\* file's reads saw.  A plain global (g = 1, function fn() end) enters the project's table when a require of its file
\* returns -- which, for a file that is still being walked (a require cycle), is at once; a _G global (_G.h = 2)
\* enters it when its defining statement is passed.
RECURSIVE Walk(_, _), WalkReqs(_, _, _)
WalkReqs(f, i, st) ==
    IF i > Len(req[f]) THEN st
    ELSE LET g == req[f][i]
             s1 == IF g \in st.entered THEN st ELSE Walk(g, st)
         IN WalkReqs(f, i + 1, [s1 EXCEPT !.ret = @ \cup {g}])
Walk(f, st) ==
    LET s1 == [st EXCEPT !.entered = @ \cup {f}]
        s2 == WalkReqs(f, 1, s1)
    IN [s2 EXCEPT !.done = Append(@, f),
                  !.saw = [@ EXCEPT ![f] = {s2.done[k] : k \in 1..Len(s2.done)} \cup {f}],
                  !.sawp = [@ EXCEPT ![f] = s2.ret \cup {f}]]
Final == Walk("main", [entered |-> {}, done |-> <<>>, ret |-> {}, saw |-> [f \in Files |-> {f}], sawp |-> [f \in Files |-> {f}]])
LoadOrder == Final.done          \* files in the order their definitions are passed
Saw == Final.saw                 \* Saw[f]: files whose _G globals f's top-level reads see in project mode
SawPlain == Final.sawp           \* SawPlain[f]: files whose plain globals they see

\* model facts: every file sees itself; the entry, completed last, sees every member; what is seen was completed
SawSelf == \A f \in Members : f \in Saw[f]
EntrySeesAll == Saw["main"] = Members
\* completed files were required, so their plain globals are seen too; cycles make plain sight strictly larger
PlainSeesMore == \A f \in Members : (Saw[f] \ {"main"}) \subseteq SawPlain[f]
SawSound == \A f \in Members : Saw[f] \subseteq Members
OrderIsMembers == {LoadOrder[k] : k \in 1..Len(LoadOrder)} = Members /\ Len(LoadOrder) = Cardinality(Members)
\* a file never sees a file that (transitively) required it before completing: no two files see each other unless equal
NoMutualSight == \A f, g \in Members : f # g /\ g \in Saw[f] => f \notin Saw[g]

(***************************************************************************)
(* What a top-level read in file f of a global declared by file d resolves *)
(* to.  Ideal (the listed properties): the declaration, always -- every     *)
(* file of the workspace is searched.  As built, in project mode:          *)
(*   "ok"      the declaration was passed before the read: resolved, silent *)
(*   "cycle"   the declaration exists in the project's tables but is passed *)
(*             later in the load order: resolved, but reported (type 3)     *)
(*   "unknown" a plain global (not written _G.x) of the entry file: plain   *)
(*             globals enter the project's table when their file is         *)
(*             required, and nobody requires the entry: invisible to every  *)
(*             other file (type 2, no definition, not among the references) *)
(***************************************************************************)
Kinds == {"g", "h", "fn"}       \* g_x = 1 ; _G.h_x = 2 ; function fn_x() end
Ideal(f, d, k) == "ok"
AsBuilt(f, d, k) ==
    IF f = d THEN "ok"
    ELSE IF f = "t" THEN (IF d \in Incl THEN "ok" ELSE "unknown")
    ELSE IF d = "t" THEN "unknown"
    ELSE IF k # "h" /\ d = "main" THEN "unknown"
    ELSE IF k = "h" THEN (IF d \in Saw[f] THEN "ok" ELSE "cycle")
    ELSE IF d \in SawPlain[f] THEN "ok" ELSE "cycle"
\* A read inside a function body is not placed in the load order (the function may run any time later): as built it is
\* looked up in the tables of the whole project, so it is never a load-order error; only the plain globals of the entry
\* file stay out of reach of the other files.
AsBuiltFn(f, d, k) == IF AsBuilt(f, d, k) = "cycle" THEN "ok" ELSE AsBuilt(f, d, k)
FnNeverCycle == \A f, d \in Files, k \in Kinds : AsBuiltFn(f, d, k) # "cycle"

\* model facts: the entry file resolves everything; a file's own globals always resolve; _G globals never get lost
EntryResolvesAll == Covered => \A d \in Proj, k \in Kinds : AsBuilt("main", d, k) = "ok"
GNeverUnknown == \A f, d \in Proj : AsBuilt(f, d, "h") # "unknown"
Deviates == \E f, d \in Files, k \in Kinds : AsBuilt(f, d, k) # Ideal(f, d, k)

\* model facts: the entry is always a member; membership only grows with more requires
EntryMember == "main" \in Members
TypeOK == Total <= MaxReq /\ \A f \in Files : Len(req[f]) <= 3

\* shapes worth naming in the evidence
Shared == \E g \in Files : Cardinality({f \in Files : \E i \in 1..Len(req[f]) : req[f][i] = g}) >= 2
Repeated == \E f \in Files : \E i, j \in 1..Len(req[f]) : i # j /\ req[f][i] = req[f][j]

Emit == IF Covered
        THEN PrintT("@@J " \o ToJson([fam |-> "project", req |-> req, shared |-> Shared, repeated |-> Repeated,
                                       incl |-> SetToSeq(Incl), order |-> LoadOrder, saw |-> [f \in Files |-> SetToSeq(Saw[f])],
                                       asbuilt |-> [f \in Files |-> [d \in Files |-> [k \in Kinds |-> AsBuilt(f, d, k)]]],
                                       asbuiltfn |-> [f \in Files |-> [d \in Files |-> [k \in Kinds |-> AsBuiltFn(f, d, k)]]]]))
        ELSE TRUE
=============================================================================
