--------------------------- MODULE LivenessTrace ---------------------------
(***************************************************************************)
(* Trace validation for Liveness.tla (binding B2).  trace.ndjson holds the *)
(* recorded sessions of the real server, one event per line:               *)
(*   reset | send id | reply id | notify | push | tick | crash | fault      *)
(* (a tick is logged for every elapsed second while a request is pending;  *)
(* crash = the server process exited or stopped producing output; fault =  *)
(* the verif hook reported a value swallowed by the parser's recover()).   *)
(* The events are replayed through Liveness.tla's actions; after every     *)
(* step the invariant Good is evaluated and the sessions that break it are *)
(* printed with the offending step.                                        *)
(***************************************************************************)
EXTENDS Liveness

Trace == ndJsonDeserialize("trace.ndjson")

VARIABLES l, run, reported
tvars == <<pending, now, alive, fault, l, run, reported>>

IsEvent(e) == l <= Len(Trace) /\ Trace[l].ev = e /\ l' = l + 1

TReset == /\ IsEvent("reset")
          /\ pending' = {} /\ now' = 0 /\ alive' = TRUE /\ fault' = FALSE
          /\ run' = Trace[l].run /\ reported' = FALSE
Keep == UNCHANGED <<run, reported>>
TSend == IsEvent("send") /\ Send(Trace[l].id) /\ Keep
TReply == IsEvent("reply") /\ Reply(Trace[l].id) /\ Keep
TNotify == IsEvent("notify") /\ Notify /\ Keep
TPush == IsEvent("push") /\ Push /\ Keep
TTick == IsEvent("tick") /\ Tick /\ Keep
TCrash == IsEvent("crash") /\ Crash /\ Keep
TFault == IsEvent("fault") /\ Fault /\ Keep

TraceInit == Init /\ l = 1 /\ run = 0 /\ reported = FALSE
TraceNext == TReset \/ TSend \/ TReply \/ TNotify \/ TPush \/ TTick \/ TCrash \/ TFault
TraceSpec == TraceInit /\ [][TraceNext]_tvars

Why == IF ~alive THEN "crash" ELSE IF fault THEN "fault" ELSE "overdue"

Report ==
    IF l = 1 \/ Good THEN TRUE
    ELSE PrintT("@@J " \o ToJson([fam |-> "liveness-trace", run |-> run, line |-> l - 1, why |-> Why]))
=============================================================================
