---------------------------- MODULE Consistency ----------------------------
(***************************************************************************)
(* C12: definition, references, highlight and hover agree with each other. *)
(*                                                                         *)
(* The harness records, for every identifier position p of a program, the  *)
(* four answers of the real server.  One line of answers.ndjson is the     *)
(* answer table of one workspace:                                          *)
(*   [id, rows : Seq([p, name, def, refs, hl, hname, hlocal, hasdef,       *)
(*                    deflocal, defknown])]                                *)
(* with positions as records [f, l, c].  This module states the four       *)
(* relations of the property over such a table; TLC evaluates them on      *)
(* every recorded table (one state per table) and prints the positions     *)
(* that break a relation.  There is no external oracle.                    *)
(***************************************************************************)
EXTENDS Integers, Sequences, FiniteSets, TLC, Json

Tables == ndJsonDeserialize("answers.ndjson")

VARIABLE i

SeqToSet(s) == {s[k] : k \in 1..Len(s)}

Rows(t) == SeqToSet(t.rows)
HasRow(t, pos) == \E r \in Rows(t) : r.p = pos
RowAt(t, pos) == CHOOSE r \in Rows(t) : r.p = pos

\* R1: every location returned by references(p) resolves to the same declaration as p
R1(t, r) == \A x \in SeqToSet(r.refs) :
               HasRow(t, x) => SeqToSet(RowAt(t, x).def) = SeqToSet(r.def)

\* R2: p is among the references of its own declaration
R2(t, r) == \A dpos \in SeqToSet(r.def) :
               HasRow(t, dpos) => r.p \in SeqToSet(RowAt(t, dpos).refs)

\* R3: highlight(p) = the references of p that lie in p's file
R3(t, r) == SeqToSet(r.hl) = {x \in SeqToSet(r.refs) : x.f = r.p.f}

\* R4: hover names the identifier under the cursor, and says "local" exactly when the definition is a local declaration
R4(t, r) == /\ r.hasdef => r.hname = r.name
            /\ (r.hasdef /\ r.defknown) => (r.hlocal <=> r.deflocal)

Broken(t, r) == (IF R1(t, r) THEN {} ELSE {"R1"}) \cup (IF R2(t, r) THEN {} ELSE {"R2"})
                \cup (IF R3(t, r) THEN {} ELSE {"R3"}) \cup (IF R4(t, r) THEN {} ELSE {"R4"})

BadRows(t) == {r \in Rows(t) : Broken(t, r) # {}}

Report ==
    LET t == Tables[i]
        bad == BadRows(t)
    IN IF bad = {} THEN TRUE
       ELSE PrintT("@@J " \o ToJson([fam |-> "consistency", id |-> t.id,
                                     broken |-> {[p |-> r.p, rel |-> Broken(t, r)] : r \in bad}]))

Init == i = 1
Next == i < Len(Tables) /\ i' = i + 1
Spec == Init /\ [][Next]_i

\* the relations hold on an empty or well-behaved table (sanity of the module itself)
Sane == Len(Tables) >= 1
=============================================================================
