------------------------------- MODULE Config -------------------------------
(***************************************************************************)
(* C17: each configuration switch silences exactly the diagnostics it      *)
(* names.  A configuration is a record; Excluded(cfg, d) is the documented  *)
(* meaning of its switches for a diagnostic d = [f |-> file, t |-> type];   *)
(* the property is  Shown(cfg) = {d \in Shown(AllOn) : ~Excluded(cfg, d)}   *)
(* for every configuration, identically for the three ways of giving it    *)
(* (initialization options, a later settings change, luahelper.json).      *)
(*                                                                         *)
(* This module enumerates the configurations to try (one TLC state each)   *)
(* and proves on the model that the exclusion rules compose as a filter    *)
(* (Homomorphic): that is why single switches, pairs and the special group *)
(* are an adequate cover *if* the code is a filter -- which the replay on  *)
(* the real server, evaluated by ConfigEval.tla, is what checks.           *)
(***************************************************************************)
EXTENDS Integers, Sequences, FiniteSets, TLC, Json

CONSTANTS Types,     \* diagnostic types that have a client switch, e.g. 1..25
          Files,     \* workspace files
          Rules,     \* ignore rules used (strings)
          Level      \* "quick" or "thorough": how many combinations are enumerated

\* documented meaning of the ignore rules on this workspace (file literal, folder, regular expression)
Matches(r) ==
    CASE r = "alpha/one.lua" -> {"alpha/one.lua"}
      [] r = "tests/"        -> {"tests/t1.lua"}
      [] r = "beta/th.*lua"  -> {"beta/three.lua"}
      [] r = "alpha/"        -> {"alpha/one.lua", "alpha/two.lua"}
      [] r = "c++/"          -> {"c++/bind.lua"}            \* a literal folder name that is not a valid regular expression
      [] OTHER               -> {}

Sources == {"init", "change", "json"}

AllOn(src) == [src |-> src, master |-> TRUE, off |-> {}, err |-> {}, ana |-> {}, ftype |-> {}, prev |-> {}]

\* d is silenced by configuration c
Excluded(c, d) ==
    \/ ~c.master
    \/ d.t \in c.off
    \/ \E r \in c.err \cup c.ana : d.f \in Matches(r)
    \/ \E p \in c.ftype : d.f \in Matches(p[1]) /\ d.t = p[2]

Filter(c, base) == {d \in base : ~Excluded(c, d)}

\* combining two configurations silences the union
Join(c1, c2) == [c1 EXCEPT !.master = c1.master /\ c2.master, !.off = c1.off \cup c2.off,
                           !.err = c1.err \cup c2.err, !.ana = c1.ana \cup c2.ana, !.ftype = c1.ftype \cup c2.ftype]

----------------------------------------------------------------------------
(* The configurations to try *)

Special == {2, 3, 10, 11, 12} \cap Types

Flags(src) ==
       {[AllOn(src) EXCEPT !.off = {t}] : t \in Types}                                  \* every single switch
  \cup {[AllOn(src) EXCEPT !.master = FALSE]}                                            \* master switch
  \cup {[AllOn(src) EXCEPT !.off = S] : S \in SUBSET Special}                            \* the "special check" group
  \cup {[AllOn(src) EXCEPT !.off = Types \ {t}] : t \in Types}                          \* a single check left on
  \cup (IF Level = "thorough"
        THEN {[AllOn(src) EXCEPT !.off = {t1, t2}] : t1 \in Types, t2 \in Types}        \* all pairs
        ELSE {[AllOn(src) EXCEPT !.off = {t, t + 1}] : t \in Types \ {25}}              \* adjacent pairs
              \cup {[AllOn(src) EXCEPT !.off = {1, t}] : t \in Types})

RuleCfgs(src) ==
       {[AllOn(src) EXCEPT !.err = S] : S \in SUBSET Rules}
  \cup {[AllOn(src) EXCEPT !.ana = S] : S \in SUBSET Rules}
  \cup {[AllOn(src) EXCEPT !.err = {r1}, !.ana = {r2}, !.off = {4}] : r1 \in Rules, r2 \in Rules}

\* per-file type rules exist in luahelper.json only
TypeRuleCfgs ==
       {[AllOn("json") EXCEPT !.ftype = {<<r, t>>}] : r \in Rules, t \in {2, 4, 5, 6, 13, 18}}
  \cup {[AllOn("json") EXCEPT !.ftype = {<<"alpha/", 4>>, <<"alpha/one.lua", 2>>}, !.off = {5}]}

\* a settings change following an earlier, different settings change: only the last one counts
Seqs ==
    {[c2 EXCEPT !.prev = {c1}] :
        c1 \in {[AllOn("change") EXCEPT !.off = {4}], [AllOn("change") EXCEPT !.err = {"alpha/"}],
                [AllOn("change") EXCEPT !.master = FALSE], [AllOn("change") EXCEPT !.ana = {"tests/"}]},
        c2 \in {AllOn("change"), [AllOn("change") EXCEPT !.off = {2}], [AllOn("change") EXCEPT !.err = {"tests/"}]}}

ConfigSet == UNION {Flags(s) \cup RuleCfgs(s) : s \in Sources} \cup TypeRuleCfgs \cup Seqs

VARIABLE cfg
Init == cfg \in ConfigSet
Next == UNCHANGED cfg
Spec == Init /\ [][Next]_cfg

----------------------------------------------------------------------------
(* Model property: exclusion is a filter, so exclusions compose by union *)

AllDiags == {[f |-> f, t |-> t] : f \in Files, t \in Types}

Homomorphic ==
    \A c2 \in Flags("init") \cup RuleCfgs("init") :
        Filter(Join(cfg, c2), AllDiags) = Filter(cfg, AllDiags) \cap Filter(c2, AllDiags)

Monotone == Filter(cfg, AllDiags) \subseteq AllDiags

FtypeList(c) == {[r |-> p[1], t |-> p[2]] : p \in c.ftype}
PrevList(c) == {[master |-> q.master, off |-> q.off, err |-> q.err, ana |-> q.ana] : q \in c.prev}

Emit == PrintT("@@J " \o ToJson([fam |-> "config", src |-> cfg.src, master |-> cfg.master, off |-> cfg.off,
                                 err |-> cfg.err, ana |-> cfg.ana, ftype |-> FtypeList(cfg), prev |-> PrevList(cfg)]))
=============================================================================
