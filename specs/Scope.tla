------------------------------- MODULE Scope -------------------------------
(***************************************************************************)
(* Lua lexical scoping as a state machine whose behaviours are programs    *)
(* (C05, C06, C07, C11, C12, C14, C19).                                    *)
(*                                                                         *)
(* Every action emits one statement-level item of a Lua program and        *)
(* updates the reference semantics: the stack of open blocks with the      *)
(* locals declared in each, the set of declarations that have been read,   *)
(* the global definitions.  A reachable state is therefore a program       *)
(* prefix together with its meaning: for every identifier occurrence the   *)
(* declaration Lua binds it to.  "A local is not visible in its own        *)
(* initialiser" is the fact that Local(..) resolves the initialiser's name *)
(* against the stack *before* pushing the new declaration; "a local        *)
(* function is" is the fact that LFunc pushes it first.                    *)
(*                                                                         *)
(* Declarations are numbered (id); an occurrence carries b = id of the     *)
(* local declaration it is bound to, or 0 when no local is visible (then   *)
(* it denotes the global of that name: `gdefs` lists its definitions).     *)
(***************************************************************************)
EXTENDS Integers, Sequences, FiniteSets, TLC, Json

CONSTANTS Names,      \* identifiers used for variables, e.g. {"a","b"}
          MaxItems,   \* program length (items) explored
          MaxDepth,   \* maximal block nesting
          MaxFiles,   \* number of files
          Kinds,      \* item kinds enabled in this configuration
          EmitMin,    \* print only programs with at least this many items
          Avoid       \* (see Shallower for "gshallow") trigger constructs of as-built deviations to leave out of the generated domain:
                      \* "hide" (first assignment to a value-less local mentions it), "selfw" (global n written inside function n)

VARIABLES prog,    \* sequence of items
          stack,   \* sequence of frames [k |-> kind, vars |-> <<[n, id]...>>]
          nid,     \* next declaration id
          nfile,   \* number of files started (1-based current file)
          reads,   \* set of local declaration ids that some occurrence reads
          gdefs,   \* set of <<name, id, file, toplevel, depth>> : global definitions
          empty    \* as-built bookkeeping only: locals declared without a value and not assigned since

vars == <<prog, stack, nid, nfile, reads, gdefs, empty>>

None == "-"

----------------------------------------------------------------------------
(* Reference semantics *)

MaxOf(S) == CHOOSE m \in S : \A j \in S : j <= m

\* latest declaration of x among the locals of one frame (0 = none)
InFrame(vs, x) ==
    LET S == {i \in 1..Len(vs) : vs[i].n = x}
    IN IF S = {} THEN 0 ELSE vs[MaxOf(S)].id

\* innermost, latest visible local declaration of x (0 = none: x is a global name here)
Lookup(st, x) ==
    LET F == {i \in 1..Len(st) : InFrame(st[i].vars, x) # 0}
    IN IF F = {} THEN 0 ELSE InFrame(st[MaxOf(F)].vars, x)

----------------------------------------------------------------------------
(* As-built deviations (known findings).  Each predicts the exact wrong binding. *)
(*                                                                         *)
(* Dev_InitialiserSeesNewLocal: the new local is already visible inside    *)
(*   its own initialiser unless that is a bare name, a call or a function. *)
(* Dev_ForBoundSeesLoopVar: the loop variable is visible in the bounds /   *)
(*   iterator expressions of its own for statement.                        *)
(* Dev_EmptyLocalReboundHidesDecl: a local declared without a value takes  *)
(*   its first later assignment (`n = n`, `function n() .. end`) as its    *)
(*   initialiser, and occurrences of n inside that text are resolved as if *)
(*   the declaration did not exist.                                        *)

\* lookup that ignores the declarations in H
InFrameSkip(vs, x, H) ==
    LET S == {i \in 1..Len(vs) : vs[i].n = x /\ vs[i].id \notin H}
    IN IF S = {} THEN 0 ELSE vs[MaxOf(S)].id
LookupSkip(st, x, H) ==
    LET F == {i \in 1..Len(st) : InFrameSkip(st[i].vars, x, H) # 0}
    IN IF F = {} THEN 0 ELSE InFrameSkip(st[MaxOf(F)].vars, x, H)

\* declarations hidden inside the function bodies that are currently open
Hidden(st) == {st[i].hide : i \in {j \in 1..Len(st) : "hide" \in DOMAIN st[j]}} \ {0}

NoAlt == [init |-> -1, forb |-> -1, hide |-> -1]
\* as-built binding of a plain occurrence of x
HideAlt(st, x) ==
    LET b == Lookup(st, x)  H == Hidden(st)
    IN IF b # 0 /\ b \in H THEN [NoAlt EXCEPT !.hide = LookupSkip(st, x, H)] ELSE NoAlt

\* nesting level of the current point: function nesting first, block nesting inside the innermost function second
FnFrames == {i \in 1..Len(stack) : stack[i].k = "func"}
Level == Cardinality(FnFrames) * 100 + (IF FnFrames = {} THEN Len(stack) ELSE Len(stack) - MaxOf(FnFrames))

\* "gshallow": a definition of global n at a shallower nesting level than an earlier definition of n in the same file
Shallower(n) == \E g \in gdefs : g[1] = n /\ g[3] = nfile /\ g[5] > Level

Top == stack[Len(stack)]
Push(fr) == Append(stack, fr)
Pop == SubSeq(stack, 1, Len(stack) - 1)
Frame(k) == [k |-> k, vars |-> <<>>]
Declare(st, n, id) == [st EXCEPT ![Len(st)].vars = Append(@, [n |-> n, id |-> id])]
AtTop == Len(stack) = 1          \* at the top level of the current file
InFunc == \E i \in 1..Len(stack) : stack[i].k = "func"

Read(b) == IF b = 0 THEN reads ELSE reads \cup {b}

\* ids of the local declarations visible at the current program point
VisIdsOf(st) == UNION {{st[i].vars[j].id : j \in 1..Len(st[i].vars)} : i \in 1..Len(st)}
VisIds == VisIdsOf(stack)

\* as-built (Dev_InitialiserSeesNewLocal, completion): locals whose initialiser function encloses the point
PendIds == {stack[i].pend.id : i \in {j \in 1..Len(stack) : "pend" \in DOMAIN stack[j]}}

\* inside the body of a function statement that defines a global
InGFunc == \E i \in 1..Len(stack) : "gname" \in DOMAIN stack[i]

\* a block that ended in `return u` takes no further statement (only its closer, or the next file)
Returned == "ret" \in DOMAIN Top
More0 == Len(prog) < MaxItems
More == More0 /\ ~Returned
CanOpen == Len(stack) < MaxDepth
On(k) == k \in Kinds

----------------------------------------------------------------------------
(* Actions: one per statement form *)

Init == /\ prog = <<>>
        /\ stack = <<Frame("file")>>
        /\ nid = 1
        /\ nfile = 1
        /\ reads = {}
        /\ gdefs = {}
        /\ empty = {}

\* local n            (fl = "none")
\* local n = u        (fl = "bare")
\* local n = u + 1    (fl = "binop")
\* local n = f(u)     (fl = "call", f is the builtin tostring)
\* local n = {u}      (fl = "table")
Local(n, fl, u) ==
    /\ On("local") /\ More
    /\ (fl = "none") = (u = None)
    /\ LET b == IF u = None THEN 0 ELSE Lookup(stack, u)
           a0 == IF u = None THEN NoAlt ELSE HideAlt(stack, u)
           alt == IF u = n /\ fl \in {"binop", "table"} THEN [a0 EXCEPT !.init = nid] ELSE a0
       IN
       /\ prog' = Append(prog, [infn |-> InFunc, vis |-> VisIds, vispend |-> PendIds, top |-> AtTop, ingf |-> InGFunc, k |-> "local", n |-> n, id |-> nid, fl |-> fl, u |-> u, b |-> b, alt |-> alt])
       /\ reads' = Read(b)
       /\ stack' = Declare(stack, n, nid)       \* visible only from the next statement on
       /\ nid' = nid + 1
       /\ empty' = IF fl = "none" THEN empty \cup {nid} ELSE empty
    /\ UNCHANGED <<nfile, gdefs>>

\* local n, m = u     two declarations in one statement, both invisible in the initialiser
Local2(n, m, u) ==
    /\ On("local2") /\ More
    /\ LET b == Lookup(stack, u)
           a0 == HideAlt(stack, u)
           \* (the first name's initialiser is the bare name u, which is handled correctly as built)
           alt == IF u = m THEN [a0 EXCEPT !.init = nid + 1] ELSE a0
       IN
       /\ prog' = Append(prog, [infn |-> InFunc, vis |-> VisIds, vispend |-> PendIds, top |-> AtTop, ingf |-> InGFunc, k |-> "local2", n |-> n, id |-> nid, m |-> m, mid |-> nid + 1, u |-> u, b |-> b, alt |-> alt])
       /\ reads' = Read(b)
       /\ stack' = Declare(Declare(stack, n, nid), m, nid + 1)
       /\ nid' = nid + 2
       /\ empty' = empty \cup {nid + 1}        \* m receives no value
    /\ UNCHANGED <<nfile, gdefs>>

\* print(u)
Use(u) ==
    /\ On("use") /\ More
    /\ LET b == Lookup(stack, u) IN
       /\ prog' = Append(prog, [infn |-> InFunc, vis |-> VisIds, vispend |-> PendIds, top |-> AtTop, ingf |-> InGFunc, k |-> "use", u |-> u, b |-> b, alt |-> HideAlt(stack, u)])
       /\ reads' = Read(b)
    /\ UNCHANGED <<stack, nid, nfile, gdefs, empty>>

\* n = 1  (fl = "const")   n = u  (fl = "bare")
\* a write to the visible local n, otherwise a definition of the global n
Assign(n, fl, u) ==
    /\ On("assign") /\ More
    /\ (fl = "const") = (u = None)
    /\ ("gshallow" \in Avoid) => ~(Lookup(stack, n) = 0 /\ Shallower(n))
    /\ ("hide" \in Avoid) => ~(u = n /\ Lookup(stack, n) \in empty)
    /\ ("selfw" \in Avoid) => ~(Lookup(stack, n) = 0 /\ \E i \in 1..Len(stack) : "gname" \in DOMAIN stack[i] /\ stack[i].gname = n)
    /\ LET nb == Lookup(stack, n)
           b  == IF u = None THEN 0 ELSE Lookup(stack, u)
           gid == IF nb = 0 THEN nid ELSE 0
           a0 == IF u = None THEN NoAlt ELSE HideAlt(stack, u)
           \* `n = n` on a still-empty local: the right-hand n is looked up without that declaration
           alt == IF u = n /\ nb # 0 /\ nb \in empty
                  THEN [a0 EXCEPT !.hide = LookupSkip(stack, n, Hidden(stack) \cup {nb})] ELSE a0
           naltn == IF nb = 0 THEN NoAlt ELSE HideAlt(stack, n)
           \* as-built (Dev_GlobalWriteInsideOwnFunction): an assignment to global n inside `function n() .. end`
           selfw == nb = 0 /\ \E i \in 1..Len(stack) : "gname" \in DOMAIN stack[i] /\ stack[i].gname = n
       IN /\ prog' = Append(prog, [infn |-> InFunc, vis |-> VisIds, vispend |-> PendIds, top |-> AtTop, ingf |-> InGFunc, k |-> "assign", n |-> n, nb |-> nb, id |-> gid, fl |-> fl, u |-> u, b |-> b,
                                   alt |-> alt, altn |-> naltn, selfw |-> selfw])
          /\ reads' = Read(b)
          /\ nid' = IF nb = 0 THEN nid + 1 ELSE nid
          /\ gdefs' = IF nb = 0 THEN gdefs \cup {<<n, nid, nfile, AtTop, Level>>} ELSE gdefs
          /\ empty' = empty \ {nb}
    /\ UNCHANGED <<stack, nfile>>

\* n, m = tostring(u) : two targets, one (call) expression; each target is a write to the visible local of that
\* name, otherwise a definition of the global
Assign2(n, m, u) ==
    /\ On("assign2") /\ More /\ n # m
    /\ ("hide" \in Avoid) => ~(u = n /\ Lookup(stack, n) \in empty)
    /\ ("gshallow" \in Avoid) => ~((Lookup(stack, n) = 0 /\ Shallower(n)) \/ (Lookup(stack, m) = 0 /\ Shallower(m)))
    /\ ("selfw" \in Avoid) => ~(\E i \in 1..Len(stack) : "gname" \in DOMAIN stack[i] /\ stack[i].gname \in {n, m})
    /\ LET nb == Lookup(stack, n)
           mb == Lookup(stack, m)
           b  == Lookup(stack, u)
           gid == IF nb = 0 THEN nid ELSE 0
           gmid == IF mb = 0 THEN (IF nb = 0 THEN nid + 1 ELSE nid) ELSE 0
           new == (IF nb = 0 THEN {<<n, gid, nfile, AtTop, Level>>} ELSE {})
                  \cup (IF mb = 0 THEN {<<m, gmid, nfile, AtTop, Level>>} ELSE {})
       IN /\ prog' = Append(prog, [infn |-> InFunc, vis |-> VisIds, vispend |-> PendIds, top |-> AtTop, ingf |-> InGFunc, k |-> "assign2", n |-> n, nb |-> nb, id |-> gid, m |-> m, mb |-> mb, mid |-> gmid,
                                   u |-> u, b |-> b,
                                   \* the call is adopted as the initialiser of a still-empty first target
                                   alt |-> IF u = n /\ nb # 0 /\ nb \in empty
                                           THEN [HideAlt(stack, u) EXCEPT !.hide = LookupSkip(stack, n, Hidden(stack) \cup {nb})]
                                           ELSE HideAlt(stack, u),
                                   altn |-> IF nb = 0 THEN NoAlt ELSE HideAlt(stack, n),
                                   altm |-> IF mb = 0 THEN NoAlt ELSE HideAlt(stack, m)])
          /\ reads' = Read(b)
          /\ nid' = nid + Cardinality(new)
          /\ gdefs' = gdefs \cup new
          /\ empty' = empty \ {nb, mb}
    /\ UNCHANGED <<stack, nfile>>

Do ==
    /\ On("do") /\ More /\ CanOpen
    /\ prog' = Append(prog, [infn |-> InFunc, vis |-> VisIds, vispend |-> PendIds, top |-> AtTop, ingf |-> InGFunc, k |-> "do"])
    /\ stack' = Push(Frame("do"))
    /\ UNCHANGED <<nid, nfile, reads, gdefs, empty>>

\* while u do
While(u) ==
    /\ On("while") /\ More /\ CanOpen
    /\ LET b == Lookup(stack, u) IN
       /\ prog' = Append(prog, [infn |-> InFunc, vis |-> VisIds, vispend |-> PendIds, top |-> AtTop, ingf |-> InGFunc, k |-> "while", u |-> u, b |-> b, alt |-> HideAlt(stack, u)])
       /\ reads' = Read(b)
    /\ stack' = Push(Frame("while"))
    /\ UNCHANGED <<nid, nfile, gdefs, empty>>

\* if u then
If(u) ==
    /\ On("if") /\ More /\ CanOpen
    /\ LET b == Lookup(stack, u) IN
       /\ prog' = Append(prog, [infn |-> InFunc, vis |-> VisIds, vispend |-> PendIds, top |-> AtTop, ingf |-> InGFunc, k |-> "if", u |-> u, b |-> b, alt |-> HideAlt(stack, u)])
       /\ reads' = Read(b)
    /\ stack' = Push(Frame("if"))
    /\ UNCHANGED <<nid, nfile, gdefs, empty>>

\* elseif u then : closes the then-block (its locals vanish), condition resolved outside it
ElseIf(u) ==
    /\ On("if") /\ More0 /\ Top.k = "if"
    /\ LET b == Lookup(Pop, u) IN
       /\ prog' = Append(prog, [infn |-> InFunc, vis |-> VisIds, vispend |-> PendIds, top |-> AtTop, ingf |-> InGFunc, k |-> "elseif", u |-> u, b |-> b, alt |-> HideAlt(Pop, u),
                               visx |-> VisIdsOf(Pop)])    \* visible inside the condition: the then-block's locals are gone
       /\ reads' = Read(b)
    /\ stack' = Append(Pop, Frame("if"))
    /\ UNCHANGED <<nid, nfile, gdefs, empty>>

Else ==
    /\ On("if") /\ More0 /\ Top.k = "if"
    /\ prog' = Append(prog, [infn |-> InFunc, vis |-> VisIds, vispend |-> PendIds, top |-> AtTop, ingf |-> InGFunc, k |-> "else"])
    /\ stack' = Append(Pop, Frame("else"))
    /\ UNCHANGED <<nid, nfile, reads, gdefs, empty>>

Repeat ==
    /\ On("repeat") /\ More /\ CanOpen
    /\ prog' = Append(prog, [infn |-> InFunc, vis |-> VisIds, vispend |-> PendIds, top |-> AtTop, ingf |-> InGFunc, k |-> "repeat"])
    /\ stack' = Push(Frame("repeat"))
    /\ UNCHANGED <<nid, nfile, reads, gdefs, empty>>

\* until u : the condition sees the locals of the loop body
Until(u) ==
    /\ On("repeat") /\ More0 /\ Top.k = "repeat"
    /\ LET b == Lookup(stack, u) IN
       /\ prog' = Append(prog, [infn |-> InFunc, vis |-> VisIds, vispend |-> PendIds, top |-> AtTop, ingf |-> InGFunc, k |-> "until", u |-> u, b |-> b, alt |-> HideAlt(stack, u)])
       /\ reads' = Read(b)
    /\ stack' = Pop
    /\ UNCHANGED <<nid, nfile, gdefs, empty>>

\* for n = u, 10 do : bounds resolved outside the loop, n is local to the body
ForNum(n, u) ==
    /\ On("fornum") /\ More /\ CanOpen
    /\ LET b == Lookup(stack, u)
           a0 == HideAlt(stack, u)
           alt == IF u = n THEN [a0 EXCEPT !.forb = nid] ELSE a0
       IN
       /\ prog' = Append(prog, [infn |-> InFunc, vis |-> VisIds, vispend |-> PendIds, top |-> AtTop, ingf |-> InGFunc, k |-> "fornum", n |-> n, id |-> nid, u |-> u, b |-> b, alt |-> alt])
       /\ reads' = Read(b)
    /\ stack' = Declare(Push(Frame("for")), n, nid)
    /\ nid' = nid + 1
    /\ UNCHANGED <<nfile, gdefs, empty>>

\* for n in pairs(u) do
ForIn(n, u) ==
    /\ On("forin") /\ More /\ CanOpen
    /\ LET b == Lookup(stack, u)
           a0 == HideAlt(stack, u)
           alt == IF u = n THEN [a0 EXCEPT !.forb = nid] ELSE a0
       IN
       /\ prog' = Append(prog, [infn |-> InFunc, vis |-> VisIds, vispend |-> PendIds, top |-> AtTop, ingf |-> InGFunc, k |-> "forin", n |-> n, id |-> nid, u |-> u, b |-> b, alt |-> alt])
       /\ reads' = Read(b)
    /\ stack' = Declare(Push(Frame("for")), n, nid)
    /\ nid' = nid + 1
    /\ UNCHANGED <<nfile, gdefs, empty>>

\* local function n(p) : n is visible in its own body
LFunc(n, p) ==
    /\ On("lfunc") /\ More /\ CanOpen
    /\ prog' = Append(prog, [infn |-> InFunc, vis |-> VisIds, vispend |-> PendIds, top |-> AtTop, ingf |-> InGFunc, k |-> "lfunc", n |-> n, id |-> nid, p |-> p, pid |-> nid + 1])
    /\ stack' = Declare(Append(Declare(stack, n, nid), Frame("func")), p, nid + 1)
    /\ nid' = nid + 2
    /\ UNCHANGED <<nfile, reads, gdefs, empty>>

\* local n = function(p) : n is NOT visible in the body (it is an initialiser)
LEqFunc(n, p) ==
    /\ On("lefunc") /\ More /\ CanOpen
    /\ prog' = Append(prog, [infn |-> InFunc, vis |-> VisIds, vispend |-> PendIds, top |-> AtTop, ingf |-> InGFunc, k |-> "lefunc", n |-> n, id |-> nid, p |-> p, pid |-> nid + 1])
    /\ stack' = Declare(Append(stack, [k |-> "func", vars |-> <<>>, pend |-> [n |-> n, id |-> nid]]), p, nid + 1)
    /\ nid' = nid + 2
    /\ UNCHANGED <<nfile, reads, gdefs, empty>>

\* function n(p) : assigns the visible local n, otherwise defines the global n
GFunc(n, p) ==
    /\ On("gfunc") /\ More /\ CanOpen
    /\ ("gshallow" \in Avoid) => ~(Lookup(stack, n) = 0 /\ Shallower(n))
    /\ ("hide" \in Avoid) => Lookup(stack, n) \notin empty
    /\ ("selfw" \in Avoid) => ~(Lookup(stack, n) = 0 /\ \E i \in 1..Len(stack) : "gname" \in DOMAIN stack[i] /\ stack[i].gname = n)
    /\ LET nb == Lookup(stack, n)
           gid == IF nb = 0 THEN nid ELSE 0
           pid == IF nb = 0 THEN nid + 1 ELSE nid
           hid == IF nb # 0 /\ nb \in empty THEN nb ELSE 0
           fr  == IF hid # 0 THEN [k |-> "func", vars |-> <<>>, hide |-> hid]
                  ELSE IF nb = 0 THEN [k |-> "func", vars |-> <<>>, gname |-> n]
                  ELSE Frame("func")
           \* the name in the header lies inside the function's own text
           altn == IF nb = 0 THEN NoAlt
                   ELSE IF hid # 0 THEN [NoAlt EXCEPT !.hide = LookupSkip(stack, n, Hidden(stack) \cup {hid})]
                   ELSE HideAlt(stack, n)
       IN /\ prog' = Append(prog, [infn |-> InFunc, vis |-> VisIds, vispend |-> PendIds, top |-> AtTop, ingf |-> InGFunc, k |-> "gfunc", n |-> n, nb |-> nb, id |-> gid, p |-> p, pid |-> pid, altn |-> altn])
          /\ stack' = Declare(Append(stack, fr), p, pid)
          /\ nid' = pid + 1
          /\ gdefs' = IF nb = 0 THEN gdefs \cup {<<n, nid, nfile, AtTop, Level>>} ELSE gdefs
          /\ empty' = empty \ {nb}
    /\ UNCHANGED <<nfile, reads>>

\* function t.m(p) / function t:m(p) : reads t; with a colon the body has an implicit parameter self
Meth(t, colon, p) ==
    /\ On("meth") /\ More /\ CanOpen
    /\ LET tb == Lookup(stack, t) IN
       /\ prog' = Append(prog, [infn |-> InFunc, vis |-> VisIds, vispend |-> PendIds, top |-> AtTop, ingf |-> InGFunc, k |-> "meth", t |-> t, tb |-> tb, colon |-> colon, p |-> p, pid |-> nid, altt |-> HideAlt(stack, t),
                               mi |-> Len(prog) + 1])    \* the member is named after the position of its definition: mm<mi>
       /\ reads' = Read(tb)
    /\ stack' = Declare(Push(Frame("func")), p, nid)
    /\ nid' = nid + 1
    /\ UNCHANGED <<nfile, gdefs, empty>>

\* print(_G.u) : names the global u whatever locals are visible
GUse(u) ==
    /\ On("guse") /\ More
    /\ prog' = Append(prog, [infn |-> InFunc, vis |-> VisIds, vispend |-> PendIds, top |-> AtTop, ingf |-> InGFunc, k |-> "guse", u |-> u, b |-> 0, alt |-> NoAlt])
    /\ UNCHANGED <<stack, nid, nfile, reads, gdefs, empty>>

\* t[u] = 1 : an indexed assignment; both the table and the (non-constant) index are read
IAssign(t, u) ==
    /\ On("iassign") /\ More
    /\ LET tb == Lookup(stack, t)
           b  == Lookup(stack, u)
       IN /\ prog' = Append(prog, [infn |-> InFunc, vis |-> VisIds, vispend |-> PendIds, top |-> AtTop, ingf |-> InGFunc, k |-> "iassign", t |-> t, tb |-> tb, altt |-> HideAlt(stack, t),
                                   u |-> u, b |-> b, alt |-> HideAlt(stack, u)])
          /\ reads' = reads \cup (IF tb = 0 THEN {} ELSE {tb}) \cup (IF b = 0 THEN {} ELSE {b})
    /\ UNCHANGED <<stack, nid, nfile, gdefs, empty>>

\* print(t.mm<k>) : reads t and the member defined by the method item at position k (possibly on another table)
MUse(t, k) ==
    /\ On("muse") /\ More
    /\ k \in 1..Len(prog) /\ prog[k].k = "meth"
    /\ LET tb == Lookup(stack, t) IN
       /\ prog' = Append(prog, [infn |-> InFunc, vis |-> VisIds, vispend |-> PendIds, top |-> AtTop, ingf |-> InGFunc, k |-> "muse", t |-> t, tb |-> tb, mi |-> k, altt |-> HideAlt(stack, t)])
       /\ reads' = Read(tb)
    /\ UNCHANGED <<stack, nid, nfile, gdefs, empty>>

\* pcall(function(p) : a function literal as call argument; its body is closed by `end)` or continued by a chained call
CFunc(p) ==
    /\ On("cfunc") /\ More /\ CanOpen
    /\ prog' = Append(prog, [infn |-> InFunc, vis |-> VisIds, vispend |-> PendIds, top |-> AtTop, ingf |-> InGFunc, k |-> "cfunc", p |-> p, pid |-> nid])
    /\ stack' = Declare(Push([k |-> "func", vars |-> <<>>, call |-> TRUE]), p, nid)
    /\ nid' = nid + 1
    /\ UNCHANGED <<nfile, reads, gdefs, empty>>

\* end):next(function(q) : closes the literal and opens the next one of the same call chain (one statement)
CChain(q) ==
    /\ On("cfunc") /\ More0 /\ Top.k = "func" /\ "call" \in DOMAIN Top
    /\ prog' = Append(prog, [infn |-> InFunc, vis |-> VisIds, vispend |-> PendIds, top |-> AtTop, ingf |-> InGFunc, k |-> "cchain", p |-> q, pid |-> nid])
    /\ stack' = Declare(Append(Pop, [k |-> "func", vars |-> <<>>, call |-> TRUE]), q, nid)
    /\ nid' = nid + 1
    /\ UNCHANGED <<nfile, reads, gdefs, empty>>

\* return u : last statement of its block (at the top level: the value of the module)
Return(u) ==
    /\ On("ret") /\ More
    /\ LET b == Lookup(stack, u) IN
       /\ prog' = Append(prog, [infn |-> InFunc, vis |-> VisIds, vispend |-> PendIds, top |-> AtTop, ingf |-> InGFunc, k |-> "ret", u |-> u, b |-> b, alt |-> HideAlt(stack, u)])
       /\ reads' = Read(b)
    /\ stack' = [stack EXCEPT ![Len(stack)] = [f \in DOMAIN @ \cup {"ret"} |-> IF f = "ret" THEN TRUE ELSE @[f]]]
    /\ UNCHANGED <<nid, nfile, gdefs, empty>>

\* local n = require("f<k>") : a local whose value is the module of file k (the file may not exist)
Require(n, k) ==
    /\ On("require") /\ More /\ k # nfile
    /\ prog' = Append(prog, [infn |-> InFunc, vis |-> VisIds, vispend |-> PendIds, top |-> AtTop, ingf |-> InGFunc, k |-> "require", n |-> n, id |-> nid, file |-> k])
    /\ stack' = Declare(stack, n, nid)
    /\ nid' = nid + 1
    /\ UNCHANGED <<nfile, reads, gdefs, empty>>

\* end : closes do/while/if/else/for/function bodies
End ==
    /\ More0 /\ Top.k \in {"do", "while", "if", "else", "for", "func"}
    /\ prog' = Append(prog, [infn |-> InFunc, vis |-> VisIds, vispend |-> PendIds, top |-> AtTop, ingf |-> InGFunc, k |-> "end", call |-> ("call" \in DOMAIN Top)])
    /\ stack' = IF Top.k = "func" /\ "pend" \in DOMAIN Top
                THEN Declare(Pop, Top.pend.n, Top.pend.id)     \* `local n = function` becomes visible now
                ELSE Pop
    /\ UNCHANGED <<nid, nfile, reads, gdefs, empty>>

\* start the next file (only between complete top-level statements)
NextFile ==
    /\ On("file") /\ More0 /\ AtTop /\ nfile < MaxFiles
    /\ prog' = Append(prog, [infn |-> InFunc, vis |-> VisIds, vispend |-> PendIds, top |-> AtTop, ingf |-> InGFunc, k |-> "file"])
    /\ stack' = <<Frame("file")>>
    /\ nfile' = nfile + 1
    /\ UNCHANGED <<nid, reads, gdefs, empty>>

UNames == Names
Fl1 == {"bare", "binop", "call", "table"}

Next ==
    \/ \E n \in Names : Local(n, "none", None)
    \/ \E n \in Names, u \in UNames, fl \in Fl1 : Local(n, fl, u)
    \/ \E n \in Names, m \in Names, u \in UNames : n # m /\ Local2(n, m, u)
    \/ \E u \in UNames : Use(u)
    \/ \E n \in Names : Assign(n, "const", None)
    \/ \E n \in Names, u \in UNames : Assign(n, "bare", u)
    \/ \E n \in Names, m \in Names, u \in UNames : Assign2(n, m, u)
    \/ Do
    \/ \E u \in UNames : While(u) \/ If(u) \/ ElseIf(u) \/ Until(u)
    \/ Else \/ Repeat
    \/ \E n \in Names, u \in UNames : ForNum(n, u) \/ ForIn(n, u)
    \/ \E n \in Names, p \in Names : LFunc(n, p) \/ LEqFunc(n, p) \/ GFunc(n, p)
    \/ \E t \in Names, c \in BOOLEAN, p \in Names : Meth(t, c, p)
    \/ \E u \in UNames : GUse(u)
    \/ \E t \in Names, u \in UNames : IAssign(t, u)
    \/ \E t \in Names, k \in 1..MaxItems : MUse(t, k)
    \/ \E p \in Names : CFunc(p) \/ CChain(p)
    \/ \E u \in UNames : Return(u)
    \/ \E n \in Names, k \in 1..MaxFiles : Require(n, k)
    \/ End
    \/ NextFile

Spec == Init /\ [][Next]_vars

----------------------------------------------------------------------------
(* Invariants of the reference semantics itself *)

DeclIds ==
    UNION {{stack[i].vars[j].id : j \in 1..Len(stack[i].vars)} : i \in 1..Len(stack)}

TypeOK ==
    /\ Len(prog) <= MaxItems
    /\ Len(stack) >= 1 /\ Len(stack) <= MaxDepth
    /\ stack[1].k = "file"
    /\ nfile \in 1..MaxFiles

\* every visible declaration was created before now, and ids are unique on the stack
IdsFresh == \A d \in DeclIds : d < nid
IdsUnique ==
    \A i1, i2 \in 1..Len(stack) :
      \A j1 \in 1..Len(stack[i1].vars), j2 \in 1..Len(stack[i2].vars) :
        stack[i1].vars[j1].id = stack[i2].vars[j2].id => (i1 = i2 /\ j1 = j2)

\* every binding recorded in the program is a declaration that textually precedes the occurrence
BindsPrecede ==
    \A i \in 1..Len(prog) :
        LET it == prog[i] IN
        /\ ("b" \in DOMAIN it) => it.b < nid
        /\ ("b" \in DOMAIN it /\ "id" \in DOMAIN it /\ it.id # 0) => it.b < it.id   \* never its own declaration
        /\ ("b" \in DOMAIN it /\ it.b # 0) =>
              \E j \in 1..(i-1) : \/ ("id" \in DOMAIN prog[j] /\ prog[j].id = it.b)
                                  \/ ("pid" \in DOMAIN prog[j] /\ prog[j].pid = it.b)
                                  \/ ("mid" \in DOMAIN prog[j] /\ prog[j].mid = it.b)

\* what is read has been declared
ReadsDeclared == \A r \in reads : r < nid

----------------------------------------------------------------------------
(* Output *)

Closer(fr) == IF fr.k = "repeat" THEN [k |-> "untilc"] ELSE [k |-> "end", call |-> ("call" \in DOMAIN fr)]
\* closers for the open blocks, innermost first
Closers == [i \in 1..(Len(stack) - 1) |-> Closer(stack[Len(stack) + 1 - i])]

\* visible at the end of the text, after the closers: the top-level locals of the last file
VisEnd == {stack[1].vars[j].id : j \in 1..Len(stack[1].vars)}
          \cup (IF Len(stack) >= 2 /\ "pend" \in DOMAIN stack[2] THEN {stack[2].pend.id} ELSE {})

GDefList == {[n |-> g[1], id |-> g[2], file |-> g[3], top |-> g[4]] : g \in gdefs}

Emit ==
    IF Len(prog) >= EmitMin
    THEN PrintT("@@J " \o ToJson([fam |-> "scope", items |-> prog \o Closers,
                                  gdefs |-> GDefList, reads |-> reads, ndecl |-> nid - 1, visend |-> VisEnd]))
    ELSE TRUE
=============================================================================
