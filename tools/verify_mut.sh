#!/bin/bash
# verify_mut.sh <worktree> <diff> <demo_test.go> : confirm in a scratch worktree that a seeded change compiles, passes the
# existing suite, and that its demonstration fails with the change and passes without it.
export GOFLAGS=-mod=mod GOPROXY=off GOSUMDB=off GOTOOLCHAIN=local
WT=$1; DIFF=$2; DEMO=$3
cd $WT || exit 2
git checkout -q -- . ; git clean -fdq
git apply $DIFF || { echo "APPLY-FAILED"; exit 2; }
( cd luahelper-lsp && go build ./... ) || { echo "BUILD-FAILED"; git checkout -q -- .; exit 1; }
( cd luahelper-lsp && go test -vet=off -count=1 ./... >/tmp/vm_tests.txt 2>&1 ) && echo "SUITE-OK-WITH-CHANGE" || { echo "SUITE-FAILS-WITH-CHANGE"; tail -5 /tmp/vm_tests.txt; }
case "$DEMO" in
 *_test.go) cp $DEMO luahelper-lsp/langserver/zz_demo_test.go; RUN=$(grep -o 'func Test[A-Za-z0-9_]*' $DEMO | sed 's/func //' | paste -sd'|');
   ( cd luahelper-lsp && go test -vet=off -count=1 -run "^($RUN)\$" ./langserver >/tmp/vm_demo1.txt 2>&1 ) && echo "DEMO-PASSES-WITH-CHANGE(bad)" || echo "DEMO-FAILS-WITH-CHANGE"
   git checkout -q -- .
   ( cd luahelper-lsp && go test -vet=off -count=1 -run "^($RUN)\$" ./langserver >/tmp/vm_demo2.txt 2>&1 ) && echo "DEMO-PASSES-WITHOUT-CHANGE" || { echo "DEMO-FAILS-WITHOUT-CHANGE(bad)"; tail -5 /tmp/vm_demo2.txt; }
   ;;
 *) echo "non-test demo: run manually";;
esac
git checkout -q -- . ; git clean -fdq
