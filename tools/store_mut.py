#!/usr/bin/env python3
# store_mut.py <Cxx> <mN> <repo_commit> <detected:true|false|after> <what> <needs> [note] : file a confirmed seeded change
import sys, json, os, shutil
pid, m, commit, det, what, needs = sys.argv[1:7]
note = sys.argv[7] if len(sys.argv) > 7 else ""
d = f"/verif/seeded/{pid}-{m}"
os.makedirs(d, exist_ok=True)
shutil.copy(f"/tmp/mut/out_{pid}/{m}.diff", f"{d}/patch.diff")
shutil.copy(f"/tmp/mut/out_{pid}/{m}_demo_test.go", f"{d}/demo_test.go")
meta = {"id": f"{pid}-{m}", "breaks_property": pid, "what_it_changes": what, "needs_to_manifest": needs,
  "origin": "independent sub-agent given only the property text and a scratch worktree",
  "confirmed": {"how": "tools/verify_mut.sh <scratch worktree> patch.diff demo_test.go", "builds": True,
     "existing_suite_passes_with_change": True, "demo_fails_with_change": True, "demo_passes_without_change": True, "repo_commit": commit},
  "check_run": {"how": f"tools/trymut_wt.sh <scratch worktree> patch.diff {pid}  (quick tier)", "detected": det != "false",
     "detected_only_after_strengthening": det == "after", "note": note}}
json.dump(meta, open(f"{d}/meta.json", "w"), indent=1)
print("stored", d)
