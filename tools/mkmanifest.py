import json
props=[json.loads(l) for l in open('/verif/properties.jsonl')]
claimed = json.load(open('/verif/claims.json'))
checks=[]; na=[]
for p in props:
    pid=p['id']
    if pid in claimed:
        c=claimed[pid]
        checks.append({
          "property_id":pid,
          "quick_cmd":f"./check {pid} quick",
          "thorough_cmd":f"./check {pid} thorough",
          "evidence_file":f"/verif/evidence/{pid}.json",
          "replay_cmd_template":f"./check {pid} quick --replay {{path}}",
          "engine":"tlc+lspdriver",
          "level_claimed":{"category":"model_checking","text":c["text"],"design_ref":c.get("design_ref","DESIGN.md §5/"+pid)},
          "level_note":c["note"],
          "technique":c["technique"]})
    else:
        na.append({"property_id":pid,"reason":"not built yet in this round: no TLA+ specification is bound to the code for this property so far (see DESIGN.md §10 build order); not claimed with a weaker technique"})
m={"version":1,
   "setup_cmd":"cd /verif/harness && GOFLAGS=-mod=mod GOPROXY=off GOSUMDB=off GOTOOLCHAIN=local go build -o /verif/.build/check ./cmd/check",
   "hooks":{"guard":"verif (Go build tag)","enable":"go build -tags verif ./cmd/lspdriver (harness module with replace luahelper-lsp => /repo/luahelper-lsp)",
            "baseline_off_cmd":"cd /repo/luahelper-lsp && GOFLAGS=-mod=mod GOPROXY=off GOSUMDB=off GOTOOLCHAIN=local go test -json -vet=off -count=1 -timeout 25m ./...",
            "source_commits":json.load(open('/verif/hook_commits.json')),"add_only":True},
   "engines":[{"name":"tlc+lspdriver","path":"/verif/harness","serves_properties":sorted(claimed.keys()),
               "kind_free_text":"TLA+ specifications in /verif/specs checked/enumerated by TLC; behaviours replayed into (and traces recorded from) the real server hosted in child processes built from /repo with -tags verif"}],
   "checks":checks,
   "not_applicable":na,
   "notes":"See DESIGN.md. VIOLATION verdicts come only from observations of the real code that the ideal specification rejects and no listed known finding explains."}
json.dump(m,open('/verif/MANIFEST.json','w'),indent=1)
print(len(checks),"claimed",len(na),"not claimed")
