#!/usr/bin/env python3
"""probe.py <method> file.lua [more.lua] : run the real server on the files and query <method> at every identifier start."""
import json,re,subprocess,sys,os
meth=sys.argv[1]; files=sys.argv[2:]
texts={os.path.basename(f):open(f).read() for f in files}
steps=[]; q=[]
for n,t in texts.items():
    steps.append({"m":"textDocument/didOpen","n":True,"p":{"textDocument":{"uri":"file://$ROOT/"+n,"text":t}}})
for n,t in texts.items():
    for li,line in enumerate(t.split("\n")):
        for m in re.finditer(r"[A-Za-z_][A-Za-z_0-9]*",line):
            if m.group(0) in ("local","function","end","for","in","do","if","then","else","elseif","while","repeat","until","return","pairs","print","tostring","true","false","nil","and","or","not"): continue
            p={"textDocument":{"uri":"file://$ROOT/"+n},"position":{"line":li,"character":m.start()}}
            if meth.endswith("references"): p["context"]={"includeDeclaration":True}
            if meth.endswith("rename"): p["newName"]="zz"
            steps.append({"m":meth,"p":p}); q.append((n,li,m.start(),m.group(0)))
case={"id":1,"files":texts,"steps":steps,"init":json.loads(open("/verif/tools/allon.json").read())}
out=subprocess.run([os.environ.get("DRIVER","/tmp/lspdriver")],input=json.dumps(case)+"\n",capture_output=True,text=True)
qi=0
for l in out.stdout.split("\n"):
    if not l: continue
    o=json.loads(l)
    if o["k"]=="ntf":
        d=o["d"]; print("DIAG",d["uri"].split("/")[-1],[(x["message"],x["range"]["start"]["line"],x["range"]["start"]["character"]) for x in d["diagnostics"]])
    if o["k"] in("reply","err") and o.get("m")==meth:
        n,li,c,name=q[qi]; qi+=1
        d=o.get("d")
        def compact(d):
            if isinstance(d,list) and d and isinstance(d[0],dict) and "range" in d[0] and "uri" in d[0]:
                return sorted("%s:%d:%d-%d"%(x["uri"].split("/")[-1],x["range"]["start"]["line"],x["range"]["start"]["character"],x["range"]["end"]["character"]) for x in d)
            return d
        s=json.dumps(compact(d),ensure_ascii=False)
        s=re.sub(r'file:///[^"]*/','',s)
        print(f"{n}:{li}:{c} {name} -> {s[:700]}")
if out.returncode!=0: print("EXIT",out.returncode,out.stderr[:2000])
