#!/bin/bash
# trymut.sh <diff> <prop> [<prop>...] : apply a seeded change to /repo, run the quick checks, undo it straight afterwards.
DIFF=$1; shift
cd /repo && git diff --quiet || { echo "/repo not clean"; exit 2; }
git -C /repo apply $DIFF || { echo "APPLY-FAILED"; exit 2; }
for P in "$@"; do
  cd /verif && timeout 1200 ./check $P quick > /tmp/trymut_$P.txt 2>&1; RC=$?
  echo "== $P exit=$RC $(grep -c '^VIOLATION' /tmp/trymut_$P.txt) violation lines; $(grep '^'$P' quick' /tmp/trymut_$P.txt)"
  grep -A1 '^VIOLATION' /tmp/trymut_$P.txt | head -4 | cut -c1-400
done
git -C /repo checkout -- .
git -C /repo status --short | head -3
