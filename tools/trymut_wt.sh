#!/bin/bash
# trymut_wt.sh <worktree> <diff> <prop>... : apply a seeded change in a scratch worktree and run the quick checks against it
# (VERIF_REPO points the driver build at the worktree; /repo is not touched). Evidence/replays go to a scratch VERIF_ROOT copy.
WT=$1; DIFF=$2; shift; shift
cd $WT && git checkout -q -- . && git clean -fdq && git apply $DIFF || { echo APPLY-FAILED; exit 2; }
for P in "$@"; do
  OUT=/tmp/trymut_$(basename $WT)_$(basename $DIFF .diff)_$P.txt
  ( cd ${VERIF_SNAP:-/verif} && VERIF_REPO=$WT timeout 1500 ./check $P quick > $OUT 2>&1 ); RC=$?
  echo "== $(basename $WT) $(basename $DIFF) -> $P exit=$RC violations=$(grep -c '^VIOLATION' $OUT) :: $(grep "^$P quick" $OUT | cut -c1-160)"
  grep -A1 '^VIOLATION' $OUT | grep what | head -2 | cut -c1-500
done
cd $WT && git checkout -q -- . && git clean -fdq
